"""Check context: obligations, floors, known findings, evidence and exit status."""
import json
import os
import time

from . import extract, facts

VERIF = extract.VERIF
EVIDENCE = os.environ.get("SASV_EVIDENCE") or os.path.join(VERIF, "evidence")
KNOWN = os.path.join(VERIF, "known_findings.json")
FLOORS = os.path.join(VERIF, "tables", "floors.json")


class Broken(Exception):
    """The check itself cannot run (extraction failed, fact schema mismatch...)."""


class Ctx:
    def __init__(self, pid, tier="quick", seed=0):
        self.pid = pid
        self.tier = tier
        self.seed = seed
        self.t0 = time.time()
        self.obs = []          # obligations
        self.counts = {}       # rule -> {metric: n}
        self.assumptions = []
        self.analysed = {}     # free-form coverage facts
        self._facts = {}
        self.cdir = None
        self.tree = None
        self.rules_run = []
        with open(FLOORS) as f:
            self.floors = json.load(f)
        try:
            with open(KNOWN) as f:
                self.known = json.load(f)
        except OSError:
            self.known = {"findings": [], "fixed": []}

    # -- facts ---------------------------------------------------------
    def ensure(self):
        if self.cdir is None:
            self.cdir, self.tree = extract.ensure_facts()
            fm = os.path.join(self.cdir, "extract_failed.json")
            if os.path.exists(fm):
                raise Broken("fact extraction failed for tree %s (see %s)" % (self.tree, fm))
        return self.cdir

    def facts(self, tag="dev-none-stable", crate="sas_lexer"):
        key = (crate, tag)
        if key not in self._facts:
            self.ensure()
            p = os.path.join(self.cdir, "%s-%s.json" % (crate, tag))
            if not os.path.exists(p):
                raise Broken("missing fact file %s" % p)
            f = facts.Facts(p)
            if f.crate != crate or f.tag != tag:
                raise Broken("fact file %s names %s/%s" % (p, f.crate, f.tag))
            self._facts[key] = f
        return self._facts[key]

    # -- obligations ---------------------------------------------------
    def ob(self, rule, key, ok, site="", detail="", nontrivial=True):
        """Record one obligation. key must not contain line numbers."""
        self.obs.append({"rule": rule, "key": key, "ok": bool(ok), "site": site, "detail": detail,
                         "nontrivial": nontrivial})
        return ok

    def violation(self, rule, key, site="", detail=""):
        return self.ob(rule, key, False, site, detail)

    def count(self, rule, metric, n):
        self.counts.setdefault(rule, {})[metric] = n

    def assume(self, text):
        if text not in self.assumptions:
            self.assumptions.append(text)

    def check_floors(self):
        for rule, metrics in self.floors.items():
            if rule.startswith("_") or rule not in self.rules_run:
                continue
            for metric, floor in metrics.items():
                got = self.counts.get(rule, {}).get(metric)
                if got is None:
                    self.ob(rule, "FLOOR:%s:%s" % (rule, metric), False, "",
                            "rule did not report instance count '%s' (floor %s): anchor missing" % (metric, floor))
                elif got < floor:
                    self.ob(rule, "FLOOR:%s:%s" % (rule, metric), False, "",
                            "matched %d instances of '%s', confirmed floor is %d: the rule lost its anchors" % (got, metric, floor))
                else:
                    self.ob(rule, "FLOOR:%s:%s" % (rule, metric), True, "", "%d >= %d" % (got, floor), nontrivial=False)

    # -- finish --------------------------------------------------------
    def finish(self, level_text):
        self.check_floors()
        os.makedirs(os.path.join(EVIDENCE, "replay"), exist_ok=True)
        known_keys = {}
        for k in self.known.get("findings", []):
            if k.get("property") == self.pid:
                known_keys[(k["rule"], k["key"])] = k
        viol = [o for o in self.obs if not o["ok"]]
        new, known_hit = [], []
        seen = set()
        for v in viol:
            kk = (v["rule"], v["key"])
            if kk in seen:
                continue
            seen.add(kk)
            if kk in known_keys:
                known_hit.append(v)
            else:
                new.append(v)
        lines = []
        for v in known_hit:
            lines.append("KNOWN-FINDING: property=%s rule=%s key=%s %s" % (self.pid, v["rule"], v["key"], v["detail"]))
        replay_paths = []
        for i, v in enumerate(new):
            rp = os.path.join(EVIDENCE, "replay", "%s-%d.json" % (self.pid, i))
            with open(rp, "w") as f:
                json.dump({"property": self.pid, "tree": self.tree, **v}, f, indent=1)
            replay_paths.append(rp)
            lines.append("VIOLATION property=%s replay=%s rule=%s key=%s site=%s :: %s" % (
                self.pid, os.path.relpath(rp, VERIF), v["rule"], v["key"], v["site"], v["detail"]))
        # clean stale replay files of this property
        for fn in os.listdir(os.path.join(EVIDENCE, "replay")):
            if fn.startswith(self.pid + "-") and os.path.join(EVIDENCE, "replay", fn) not in replay_paths:
                try:
                    os.remove(os.path.join(EVIDENCE, "replay", fn))
                except OSError:
                    pass
        n_ob = len(self.obs)
        n_ok = sum(1 for o in self.obs if o["ok"])
        distinct_nt = len({(o["rule"], o["key"]) for o in self.obs if o["nontrivial"]})
        per_rule = {}
        for o in self.obs:
            r = per_rule.setdefault(o["rule"], {"obligations": 0, "discharged": 0})
            r["obligations"] += 1
            r["discharged"] += 1 if o["ok"] else 0
        for r, m in self.counts.items():
            per_rule.setdefault(r, {})["instances"] = m
            fl = self.floors.get(r)
            if fl:
                per_rule[r]["floors"] = fl
        samples = []
        by_rule_seen = {}
        for o in self.obs:
            if by_rule_seen.get(o["rule"], 0) < 2 and o["nontrivial"]:
                by_rule_seen[o["rule"]] = by_rule_seen.get(o["rule"], 0) + 1
                samples.append({"rule": o["rule"], "key": o["key"], "site": o["site"],
                                "verdict": "ok" if o["ok"] else "violation", "detail": o["detail"][:300]})
        for v in new[:10]:
            samples.append({"rule": v["rule"], "key": v["key"], "site": v["site"], "verdict": "VIOLATION",
                            "detail": v["detail"][:500]})
        ev = {
            "property_id": self.pid,
            "tier": self.tier,
            "seed": self.seed,
            "level": "other",
            "coverage": {
                "explanation": level_text,
                "obligations": n_ob,
                "discharged": n_ok,
                "evaluations": max(n_ob, 1),
                "distinct_nontrivial": distinct_nt,
                "rule": "one obligation per (rule, site/path key) found in /repo's current source; "
                        "non-trivial = not a floor bookkeeping entry; distinct by (rule, key)",
                "samples": samples[:40],
                "rules": per_rule,
                "tree_hash": self.tree,
                "configurations": sorted("%s/%s" % k for k in self._facts.keys()),
                "analysed": self.analysed,
                "known_findings_hit": [v["key"] for v in known_hit],
                "checker_cmd": "./check %s --tier %s" % (self.pid, self.tier),
                "trusted_base": ["rustc nightly HIR/MIR of the extracted configurations", "sasfacts driver",
                                 "sasv rule tables under /verif/tables"],
            },
            "assumptions": self.assumptions,
            "wall_s": round(time.time() - self.t0, 3),
            "violations": len(new),
        }
        os.makedirs(EVIDENCE, exist_ok=True)
        with open(os.path.join(EVIDENCE, "%s.json" % self.pid), "w") as f:
            json.dump(ev, f, indent=1, ensure_ascii=False)
        for l in lines:
            print(l)
        print("%s: %d obligations, %d discharged, %d known findings, %d violations (%.1fs, tree %s)" % (
            self.pid, n_ob, n_ok, len(known_hit), len(new), time.time() - self.t0, self.tree))
        return 1 if new else 0
