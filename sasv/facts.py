"""Loader and query helpers over the fact files written by the sasfacts driver."""
import json
import os
import re

_GEN = re.compile(r"::<[^<>]*>")
_LT = re.compile(r"<'[a-z_]+>")


def norm(path):
    """Normalise a rustc def path: drop turbofish/lifetime generics, the `lexer::` prefix, r#."""
    if path is None:
        return None
    p = path
    # strip nested generic argument lists `::<...>` (innermost first)
    for _ in range(6):
        q = _GEN.sub("", p)
        if q == p:
            break
        p = q
    p = _LT.sub("", p)
    p = p.replace("r#macro", "macro")
    p = re.sub(r"\bsas_lexer::", "", p)
    p = re.sub(r"\blexer::", "", p)
    return p


def short(path):
    """Last two segments of a normalised path (Type::method or module::fn)."""
    p = norm(path)
    if p is None:
        return None
    if p.startswith("<"):
        return p
    segs = p.split("::")
    return "::".join(segs[-2:])


class Facts:
    def __init__(self, path):
        with open(path) as f:
            d = json.load(f)
        self.raw = d
        self.path = path
        self.tag = d["tag"]
        self.crate = d["crate"]
        self.cfg = d["cfg"]
        self.debug_assertions = d["debug_assertions"]
        self.bodies = {}
        self.by_short = {}
        for name, b in d["bodies"].items():
            n = norm(name)
            b["name"] = n
            b["raw_name"] = name
            self.bodies[n] = b
            self.by_short.setdefault(short(name), []).append(n)
        self.adts = {norm(k): v for k, v in d["adts"].items()}
        self.ext_adts = {norm(k): v for k, v in d.get("ext_adts", {}).items()}
        self.statics = d["statics"]
        self.consts = d["consts"]
        self.impls = d["impls"]
        self.closure_mir = d.get("closure_mir", {})

    def fn(self, name):
        """Look up a body by normalised name or unique short name."""
        if name in self.bodies:
            return self.bodies[name]
        c = self.by_short.get(name)
        if c and len(c) == 1:
            return self.bodies[c[0]]
        return None

    def fns(self, kinds=("Fn", "AssocFn")):
        for n, b in self.bodies.items():
            if b["kind"] in kinds:
                yield n, b

    def is_derive(self, name):
        return name.startswith("<") and (" as std::" in name or " as strum::" in name or "_serde::" in name)


def load(cdir, tag, crate="sas_lexer"):
    return Facts(os.path.join(cdir, "%s-%s.json" % (crate, tag)))


# ---------------------------------------------------------------------------
# generic HIR walking

def children(node):
    """Direct child nodes (dicts that carry a 'k') of a HIR JSON node."""
    for key, v in node.items():
        if key in ("res",):
            continue
        if isinstance(v, dict):
            if "k" in v or "pat" in v or "body" in v:
                yield key, v
        elif isinstance(v, list):
            for x in v:
                if isinstance(x, dict):
                    yield key, x


def walk(node, parents=None):
    """Pre-order walk yielding (node, parents tuple). Arms/fields (dicts without 'k') are walked through."""
    parents = parents or ()
    yield node, parents
    np = parents + (node,)
    for _k, c in children(node):
        yield from walk(c, np)


def is_call(n):
    return n.get("k") in ("Call", "MethodCall")


def callee(n):
    """Normalised callee of a Call/MethodCall node ('' if unresolved)."""
    if n.get("k") == "MethodCall":
        return norm(n.get("def")) or ""
    if n.get("k") == "Call":
        if n.get("def"):
            return norm(n["def"])
        if n.get("closure"):
            return "closure:" + norm(n["closure"])
    return ""


def call_args(n):
    """Arguments including the receiver (receiver first) for method calls."""
    if n.get("k") == "MethodCall":
        return [n["recv"]] + n["args"]
    return n.get("args", [])


def const_of(n):
    """If node denotes an enum/const path or ctor, return its normalised def path, else None."""
    if n is None:
        return None
    k = n.get("k")
    if k == "Path":
        r = n.get("res", {})
        if "def" in r:
            return norm(r["def"])
    if k in ("DropTemps", "Use", "TypeAscr"):
        return const_of(n["e"])
    return None


def lit_of(n):
    """(type, value) for a literal node, through trivial wrappers; None otherwise."""
    if n is None:
        return None
    k = n.get("k")
    if k == "Lit":
        return (n.get("lt"), n.get("v"))
    if k in ("DropTemps", "Use", "TypeAscr"):
        return lit_of(n["e"])
    if k == "Unary" and n.get("op") == "Neg":
        l = lit_of(n["e"])
        if l and l[0] == "int":
            return ("int", -l[1])
    return None


def strip(n):
    """Peel DropTemps/Use/TypeAscr/AddrOf/BlockExpr-with-only-expr wrappers."""
    while n is not None:
        k = n.get("k")
        if k in ("DropTemps", "Use", "TypeAscr"):
            n = n["e"]
        elif k == "AddrOf":
            n = n["e"]
        elif k == "BlockExpr" and not n["b"]["stmts"] and n["b"].get("expr") is not None:
            n = n["b"]["expr"]
        else:
            break
    return n


def site(n):
    return n.get("sp", "?")


def file_line(sp):
    """'file:line' from 'file:line:col'."""
    parts = sp.rsplit(":", 2)
    if len(parts) == 3:
        return parts[0] + ":" + parts[1]
    return sp


def from_macro(n, name):
    """True if the node comes from an expansion chain containing macro `name`."""
    m = n.get("mac")
    return bool(m) and name in m.split("<")


def pat_consts(p):
    """All constant leaves of a pattern: list of ('char'|'int'|'str'|'path'|'range'|'wild'|'bind', value)."""
    k = p.get("k")
    if k == "Or":
        out = []
        for q in p["pats"]:
            out += pat_consts(q)
        return out
    if k == "Expr":
        e = p["e"]
        if e["k"] == "Lit":
            return [(e.get("lt"), e.get("v"))]
        if e["k"] == "Path":
            return [("path", norm(e["res"].get("def", "?")))]
    if k == "Range":
        lo = p.get("lo") or {}
        hi = p.get("hi") or {}
        return [("range", (lo.get("v"), hi.get("v"), p.get("incl")))]
    if k == "Wild":
        return [("wild", None)]
    if k == "Bind":
        if p.get("sub"):
            return pat_consts(p["sub"])
        return [("bind", p.get("name"))]
    if k in ("Ref", "Box", "Deref"):
        return pat_consts(p["pat"])
    if k == "Path":
        return [("path", norm(p["res"].get("def", "?")))]
    if k == "TupleStruct":
        return [("ctor", (norm(p["res"].get("def", "?")), [pat_consts(q) for q in p["pats"]]))]
    if k == "Struct":
        return [("struct", (norm(p["res"].get("def", "?")), {f["name"]: pat_consts(f["pat"]) for f in p["fields"]}))]
    if k == "Tuple":
        return [("tuple", [pat_consts(q) for q in p["pats"]])]
    return [("other", k)]
