"""Abstract domain for one look-ahead character (used by LEA).

CharFacts = optional finite include set, excluded literals, known results of
named predicates.  Predicates on *literal* characters are evaluated concretely
(the literals that occur in the lexer's patterns are ASCII plus a handful of
symbols); relations between named predicates come from a small table of
Unicode facts (DESIGN appendix C.4).
"""

WS = set([0x9, 0xA, 0xB, 0xC, 0xD, 0x20, 0x85, 0xA0, 0x1680, 0x2028, 0x2029, 0x202F, 0x205F, 0x3000]) | set(range(0x2000, 0x200B))


def p_is_whitespace(c):
    return ord(c) in WS


def p_is_xid_start(c):
    return c != "_" and c.isidentifier()


def p_is_xid_continue(c):
    return ("a" + c).isidentifier()


NAMED = {
    "is_whitespace": p_is_whitespace,
    "is_ascii_whitespace": lambda c: c in " \t\n\x0c\r",
    "is_ascii_digit": lambda c: "0" <= c <= "9",
    "is_ascii": lambda c: ord(c) < 128,
    "is_ascii_hexdigit": lambda c: c in "0123456789abcdefABCDEF",
    "is_ascii_alphabetic": lambda c: c.isascii() and c.isalpha(),
    "is_ascii_alphanumeric": lambda c: c.isascii() and c.isalnum(),
    "is_ascii_uppercase": lambda c: "A" <= c <= "Z",
    "is_ascii_lowercase": lambda c: "a" <= c <= "z",
    "is_ascii_punctuation": lambda c: c.isascii() and not c.isalnum() and 32 < ord(c) < 127,
    "is_alphabetic": lambda c: c.isalpha(),
    "is_alphanumeric": lambda c: c.isalnum(),
    "is_numeric": lambda c: c.isnumeric(),
    "is_xid_start": p_is_xid_start,
    "is_xid_continue": p_is_xid_continue,
    "is_control": lambda c: ord(c) < 32 or 127 <= ord(c) < 160,
}

# P subset-of Q
SUBSET = {
    ("is_ascii_whitespace", "is_whitespace"), ("is_ascii_whitespace", "is_ascii"),
    ("is_ascii_digit", "is_xid_continue"), ("is_ascii_digit", "is_ascii"), ("is_ascii_digit", "is_ascii_hexdigit"),
    ("is_ascii_digit", "is_ascii_alphanumeric"), ("is_ascii_digit", "is_alphanumeric"), ("is_ascii_digit", "is_numeric"),
    ("is_xid_start", "is_xid_continue"),
    ("is_ascii_alphabetic", "is_xid_start"), ("is_ascii_alphabetic", "is_xid_continue"), ("is_ascii_alphabetic", "is_ascii"),
    ("is_ascii_alphabetic", "is_alphabetic"), ("is_ascii_alphabetic", "is_ascii_alphanumeric"),
    ("is_ascii_hexdigit", "is_xid_continue"), ("is_ascii_hexdigit", "is_ascii"), ("is_ascii_hexdigit", "is_ascii_alphanumeric"),
    ("is_ascii_alphanumeric", "is_xid_continue"), ("is_ascii_alphanumeric", "is_ascii"),
    ("is_ascii_uppercase", "is_ascii_alphabetic"), ("is_ascii_lowercase", "is_ascii_alphabetic"),
    ("is_ascii_uppercase", "is_xid_start"), ("is_ascii_lowercase", "is_xid_start"),
    ("is_ascii_uppercase", "is_xid_continue"), ("is_ascii_lowercase", "is_xid_continue"),
    ("is_ascii_punctuation", "is_ascii"),
}
# P disjoint-from Q (symmetric)
DISJOINT = set()
for a, b in [
    ("is_whitespace", "is_xid_continue"), ("is_whitespace", "is_xid_start"), ("is_whitespace", "is_ascii_digit"),
    ("is_whitespace", "is_ascii_alphabetic"), ("is_whitespace", "is_ascii_alphanumeric"), ("is_whitespace", "is_ascii_hexdigit"),
    ("is_whitespace", "is_alphabetic"), ("is_whitespace", "is_alphanumeric"), ("is_whitespace", "is_ascii_punctuation"),
    ("is_whitespace", "is_ascii_uppercase"), ("is_whitespace", "is_ascii_lowercase"), ("is_whitespace", "is_numeric"),
    ("is_ascii_digit", "is_xid_start"), ("is_ascii_digit", "is_ascii_alphabetic"), ("is_ascii_digit", "is_alphabetic"),
    ("is_ascii_punctuation", "is_ascii_alphanumeric"), ("is_ascii_punctuation", "is_ascii_digit"),
    ("is_ascii_punctuation", "is_ascii_alphabetic"), ("is_ascii_punctuation", "is_xid_start"),
]:
    DISJOINT.add((a, b))
    DISJOINT.add((b, a))


def concrete(pred, c):
    """Evaluate predicate on a concrete char; None if unknown predicate."""
    k = pred[0]
    if k == "eq":
        return c == pred[1]
    if k == "range":
        lo, hi, incl = pred[1], pred[2], pred[3]
        return (lo <= c <= hi) if incl else (lo <= c < hi)
    if k == "in":
        return c in pred[1]
    if k == "p":
        f = NAMED.get(pred[1])
        return None if f is None else bool(f(c))
    return None


def pred_str(pred, val):
    k = pred[0]
    if k == "eq":
        return ("== %r" if val else "!= %r") % pred[1]
    if k == "range":
        return ("in " if val else "not in ") + "%r..%s%r" % (pred[1], "=" if pred[3] else "", pred[2])
    if k == "in":
        return ("in {%s}" if val else "not in {%s}") % ",".join(sorted(repr(c) for c in pred[1]))
    return ("%s" if val else "!%s") % pred[1]


class CharFacts:
    __slots__ = ("inc", "exc", "preds")

    def __init__(self, inc=None, exc=frozenset(), preds=None):
        self.inc = inc            # frozenset of chars or None
        self.exc = exc            # frozenset of chars
        self.preds = preds or {}  # pred tuple -> bool

    def copy(self):
        return CharFacts(self.inc, self.exc, dict(self.preds))

    def __repr__(self):
        parts = []
        if self.inc is not None:
            parts.append("in{%s}" % ",".join(sorted(repr(c) for c in self.inc)))
        if self.exc:
            parts.append("not{%s}" % ",".join(sorted(repr(c) for c in self.exc)))
        for p, v in self.preds.items():
            parts.append(pred_str(p, v))
        return "<" + " ".join(parts) + ">"

    def possible(self, c):
        """Can the symbol be the concrete char c?"""
        if self.inc is not None and c not in self.inc:
            return False
        if c in self.exc:
            return False
        for p, v in self.preds.items():
            r = concrete(p, c)
            if r is not None and r != v:
                return False
        return True

    def decide(self, pred):
        if self.inc is not None:
            rs = set()
            for c in self.inc:
                if c in self.exc:
                    continue
                r = concrete(pred, c)
                if r is None:
                    return self.preds.get(pred)
                rs.add(r)
            if rs == {True}:
                return True
            if rs == {False}:
                return False
            if not rs:
                return False
            return None
        if pred in self.preds:
            return self.preds[pred]
        k = pred[0]
        if k == "eq":
            return False if not self.possible(pred[1]) else None
        if k == "in":
            if not any(self.possible(c) for c in pred[1]):
                return False
            return None
        if k == "range":
            lo, hi, incl = pred[1], pred[2], pred[3]
            n = ord(hi) - ord(lo) + (1 if incl else 0)
            if 0 < n <= 128:
                if not any(self.possible(chr(x)) for x in range(ord(lo), ord(lo) + n)):
                    return False
            # a true named predicate that excludes... (subset reasoning over ranges is not attempted)
            return None
        if k == "p":
            name = pred[1]
            for q, v in self.preds.items():
                if q[0] != "p":
                    if q[0] == "range" and v is True:
                        lo, hi, incl = q[1], q[2], q[3]
                        n = ord(hi) - ord(lo) + (1 if incl else 0)
                        if 0 < n <= 128:
                            rs = {concrete(pred, chr(x)) for x in range(ord(lo), ord(lo) + n)}
                            if rs == {True}:
                                return True
                            if rs == {False}:
                                return False
                    continue
                qn = q[1]
                if v is True:
                    if (qn, name) in SUBSET:
                        return True
                    if (qn, name) in DISJOINT:
                        return False
                else:
                    if (name, qn) in SUBSET:
                        return False
            return None
        return None

    def assume(self, pred, val):
        """New facts with pred == val, or None if contradictory."""
        d = self.decide(pred)
        if d is not None and d != val:
            return None
        n = self.copy()
        k = pred[0]
        if k == "eq":
            c = pred[1]
            if val:
                if not self.possible(c):
                    return None
                n.inc = frozenset([c])
                n.exc = frozenset()
                n.preds = {}
            else:
                n.exc = n.exc | {c}
                if n.inc is not None:
                    n.inc = n.inc - {c}
                    if not n.inc:
                        return None
            return n
        if k == "in":
            if val:
                keep = frozenset(c for c in pred[1] if self.possible(c))
                if not keep:
                    return None
                n.inc = keep
                n.exc = frozenset()
                n.preds = {}
            else:
                n.exc = n.exc | pred[1]
                if n.inc is not None:
                    n.inc = n.inc - pred[1]
                    if not n.inc:
                        return None
            return n
        if n.inc is not None:
            keep = frozenset(c for c in n.inc if concrete(pred, c) in (val, None))
            if not keep:
                return None
            n.inc = keep
            return n
        n.preds[pred] = val
        # a true predicate with a small finite universe turns the facts into an explicit set
        universe = None
        if val and k == "p" and pred[1] in ("is_ascii", "is_ascii_digit", "is_ascii_hexdigit", "is_ascii_alphabetic",
                                            "is_ascii_alphanumeric", "is_ascii_punctuation", "is_ascii_uppercase",
                                            "is_ascii_lowercase"):
            universe = [chr(x) for x in range(128)]
        elif val and k == "range":
            lo, hi, incl = pred[1], pred[2], pred[3]
            cnt = ord(hi) - ord(lo) + (1 if incl else 0)
            if 0 < cnt <= 256:
                universe = [chr(x) for x in range(ord(lo), ord(lo) + cnt)]
        if universe is not None:
            keep = frozenset(c for c in universe if n.possible(c))
            if not keep:
                return None
            n.inc = keep
            n.preds = {}
            n.exc = frozenset()
        return n

    def may_be(self, c):
        return self.possible(c)
