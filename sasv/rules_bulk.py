"""C05 — sibling-implementation agreement between TokenizedBuffer::into_resolved_token_vec (bulk view)
and the per-token accessors.

Both sides are evaluated *symbolically* from their HIR into expressions over the records
cur = token_infos[i], next = token_infos[i+1], L(k) = line_infos[k]; the expressions only use +, -, casts,
comparisons and bool->int, so they are compared on witnesses of every ordering of the compared quantities
(the finite set of order types allowed by the invariants add_token asserts), several affine-independent
witnesses per order type.  No lexing, no buffer is built.
"""
import itertools
import random

from . import facts as F


class Rec:
    def __init__(self, name, idx=None):
        self.name = name
        self.idx = idx     # for line records: the (symbolic) line index expression


class SVec:
    def __init__(self, name):
        self.name = name


class Clo:
    def __init__(self, node, env):
        self.node, self.env = node, env


class Ret(Exception):
    def __init__(self, v):
        self.v = v


class NeedDecision(Exception):
    """An `if` whose condition is symbolic: the driver re-runs the function once per outcome (oracle)."""
    def __init__(self, cond):
        Exception.__init__(self, repr(cond))
        self.cond = cond


class Unsupported(Exception):
    pass


FIELDS = {"byte_offset": "byte", "start": "start", "line": "line", "channel": "channel", "token_type": "type",
          "payload": "payload"}


class Sym:
    """Evaluator of the accessor / bulk-view HIR to expression tuples."""

    def __init__(self, fx, scenario):
        self.fx = fx
        self.sc = scenario   # 'inner' | 'eof'

    def atom(self, rec, f):
        if rec.idx is not None:
            return ("latom", rec.idx, FIELDS.get(f, f))
        return ("atom", "%s.%s" % (rec.name, FIELDS.get(f, f)))

    def call_fn(self, name, args):
        b = self.fx.bodies.get(name)
        if b is None:
            raise Unsupported("no body " + name)
        env = {}
        for p, a in zip(b["params"], args):
            self.bind(p, a, env)
        try:
            return self.ev(b["hir"], env)
        except Ret as r:
            return r.v

    def call_fn_forking(self, name, args, oracle=(), depth=0):
        """call_fn, but an `if` on a symbolic condition yields ("ite", cond, value-if-true, value-if-false)."""
        S = Sym(self.fx, self.sc)
        S.oracle = list(oracle)
        S.dec_i = 0
        try:
            return S.call_fn(name, args)
        except NeedDecision as nd:
            if depth >= 4:
                raise Unsupported("more than 4 nested symbolic conditions")
            t = self.call_fn_forking(name, args, list(oracle) + [True], depth + 1)
            f = self.call_fn_forking(name, args, list(oracle) + [False], depth + 1)
            return ("ite", nd.cond, t, f)

    def bind(self, pat, v, env):
        k = pat["k"]
        if k == "Bind":
            env[pat["id"]] = v
            return True
        if k in ("Wild",):
            return True
        if k in ("Ref", "Deref", "Box"):
            return self.bind(pat["pat"], v, env)
        if k == "Tuple":
            for q, x in zip(pat["pats"], v):
                self.bind(q, x, env)
            return True
        if k in ("TupleStruct", "Struct"):
            name = F.norm(pat["res"].get("def", "?")).split("::")[-1]
            if isinstance(v, tuple) and v and v[0] in ("Some", "Ok", "Err", "Continue", "Break"):
                if v[0] != name:
                    return False
                subs = pat.get("pats") or [f["pat"] for f in pat.get("fields", [])]
                if subs:
                    return self.bind(subs[0], v[1], env)
                return True
            if v == ("None",):
                return name == "None"
            raise Unsupported("pattern %s on %r" % (name, v))
        if k in ("Path", "Expr"):
            res = pat.get("res") or pat["e"].get("res", {})
            name = F.norm(res.get("def", "?")).split("::")[-1]
            if v == ("None",):
                return name == "None"
            if isinstance(v, tuple) and v and v[0] in ("Some", "Ok", "Err"):
                return False
            raise Unsupported("path pattern on %r" % (v,))
        raise Unsupported("pattern " + k)

    def truth(self, v):
        if isinstance(v, bool):
            return v
        raise Unsupported("undecided branch condition %r" % (v,))

    def ev(self, n, env):
        k = n["k"]
        if k in ("DropTemps", "Use", "TypeAscr", "AddrOf"):
            return self.ev(n["e"], env)
        if k == "Cast":
            return self.ev(n["e"], env)
        if k == "Lit":
            return n.get("v")
        if k == "BlockExpr":
            return self.block(n["b"], env)
        if k == "Path":
            r = n["res"]
            if "local" in r:
                if r["local"] not in env:
                    raise Unsupported("unbound local " + str(r.get("name")))
                return env[r["local"]]
            d = F.norm(r.get("def", "?"))
            last = d.split("::")[-1]
            if last == "None":
                return ("None",)
            if last in ("Some", "Ok", "Err"):
                return ("ctor", last)
            return ("const", d)
        if k == "Field":
            b = self.ev(n["base"], env)
            nm = n["name"]
            if isinstance(b, Rec):
                if nm == "0":
                    return b
                return self.atom(b, nm)
            if isinstance(b, tuple) and b and b[0] == "atom" and nm == "0":
                return b
            if isinstance(b, tuple) and b and b[0] == "self":
                return SVec(nm)
            if nm == "0":
                return b
            raise Unsupported("field %s of %r" % (nm, b))
        if k == "Unary":
            v = self.ev(n["e"], env)
            if n["op"] == "Deref":
                return v
            if n["op"] == "Not":
                return (not v) if isinstance(v, bool) else ("not", v)
            raise Unsupported("unary " + n["op"])
        if k == "Binary":
            op = n["op"]
            if op in ("And", "Or"):
                l = self.ev(n["l"], env)
                if isinstance(l, bool):
                    if (op == "And" and not l) or (op == "Or" and l):
                        return l
                    return self.ev(n["r"], env)
                r = self.ev(n["r"], env)
                if isinstance(r, bool):
                    if op == "And":
                        return l if r else False
                    return True if r else l
                return (op.lower(), l, r)
            l, r = self.ev(n["l"], env), self.ev(n["r"], env)
            return self.binop(op, l, r)
        if k == "If":
            c = n["cond"]
            cc = c
            while cc.get("k") in ("DropTemps", "Use"):
                cc = cc["e"]
            if cc.get("k") == "LetCond":
                v = self.ev(cc["init"], env)
                if self.bind(cc["pat"], v, env):
                    return self.ev(n["then"], env)
                return self.ev(n["else"], env) if n.get("else") else None
            cv = self.ev(c, env)
            if n.get("mac") and "assert" in n["mac"]:
                return None   # assertion bodies are observers
            if isinstance(cv, bool):
                if cv:
                    return self.ev(n["then"], env)
                return self.ev(n["else"], env) if n.get("else") else None
            if "assert" in (n.get("mac") or "") or "assert" in (n["then"].get("mac") or ""):
                return None
            # symbolic condition: follow the oracle (one run of the function per outcome, see call_fn_forking)
            oracle = getattr(self, "oracle", None)
            if oracle is None:
                raise Unsupported("undecided if %r" % (cv,))
            i = self.dec_i
            self.dec_i += 1
            if i >= len(oracle):
                raise NeedDecision(cv)
            if oracle[i]:
                return self.ev(n["then"], env)
            return self.ev(n["else"], env) if n.get("else") else None
        if k == "Match":
            v = self.ev(n["scrut"], env)
            for a in n["arms"]:
                e2 = dict(env)
                if self.bind(a["pat"], v, e2):
                    env.update(e2)
                    return self.ev(a["body"], env)
            raise Unsupported("no arm matches %r" % (v,))
        if k == "Ret":
            raise Ret(self.ev(n["val"], env) if n.get("val") else None)
        if k == "Closure":
            return Clo(n, env)
        if k == "Tup":
            return tuple(self.ev(x, env) for x in n["elems"])
        if k == "Struct":
            return ("struct", {f["name"]: self.ev(f["e"], env) for f in n["fields"]})
        if k == "Index":
            b = self.ev(n["base"], env)
            i = self.ev(n["idx"], env)
            if isinstance(b, SVec):
                return self.vec_get(b, i)
            raise Unsupported("index of %r" % (b,))
        if k == "Call":
            d = F.norm(n.get("def") or "")
            args = [self.ev(a, env) for a in n["args"]]
            if n.get("ctor"):
                return (d.split("::")[-1], args[0] if args else None)
            if d.endswith("::from") or d.endswith("::into"):
                a = args[0]
                if isinstance(a, bool):
                    return int(a)
                if isinstance(a, tuple) and a and a[0] in ("lt", "le", "gt", "ge", "eq", "ne", "and", "or", "not"):
                    return ("b2i", a)
                return a
            if d.endswith("Try::branch"):
                a = args[0]
                if a[0] in ("Some", "Ok"):
                    return ("Continue", a[1])
                return ("Break", a)
            if d.endswith("from_residual"):
                return args[0]
            if n.get("closure") or n.get("def") is None:
                f = self.ev(n["f"], env)
                return self.apply(f, args)
            if d in self.fx.bodies:
                return self.call_fn(d, args)
            raise Unsupported("call " + d)
        if k == "MethodCall":
            d = F.norm(n.get("def") or "")
            recv = self.ev(n["recv"], env)
            args = [self.ev(a, env) for a in n["args"]]
            return self.method(n["name"], d, recv, args)
        raise Unsupported("expr " + k)

    def block(self, b, env):
        for s in b["stmts"]:
            if s["k"] == "Let":
                if s.get("init") is not None:
                    v = self.ev(s["init"], env)
                    if not self.bind(s["pat"], v, env) and s.get("els"):
                        self.block(s["els"], env)
            elif s["k"] in ("Semi", "Expr"):
                self.ev(s["e"], env)
        if b.get("expr") is not None:
            return self.ev(b["expr"], env)
        return None

    def binop(self, op, l, r):
        if isinstance(l, (int, bool)) and isinstance(r, (int, bool)) and not isinstance(l, tuple):
            return {"Add": l + r, "Sub": l - r, "Lt": l < r, "Le": l <= r, "Gt": l > r, "Ge": l >= r, "Eq": l == r,
                    "Ne": l != r}[op]
        # vector length comparisons are decided by the scenario
        ls, rs = repr(l), repr(r)
        if "('len', 'token_infos')" in ls + rs and op in ("Lt", "Le", "Gt", "Ge", "Eq", "Ne"):
            return self.len_cmp(op, l, r)
        m = {"Add": "add", "Sub": "sub", "Lt": "lt", "Le": "le", "Gt": "gt", "Ge": "ge", "Eq": "eq", "Ne": "ne"}
        if op not in m:
            raise Unsupported("binop " + op)
        return (m[op], l, r)

    def len_cmp(self, op, l, r):
        """tidx + 1 < len  /  tidx == len - 1 /  tidx < len."""
        def off(x):
            # normalise to (base, k): 'idx' + k or 'len' + k
            if x == ("atom", "idx"):
                return ("idx", 0)
            if x == ("len", "token_infos"):
                return ("len", 0)
            if isinstance(x, tuple) and x[0] in ("add", "sub") and isinstance(x[2], int):
                b, k = off(x[1])
                return (b, k + (x[2] if x[0] == "add" else -x[2]))
            raise Unsupported("length expression %r" % (x,))
        (bl, kl), (br, kr) = off(l), off(r)
        # idx = len - 1 (eof) or idx <= len - 2 (inner): express everything relative to len
        if self.sc == "eof":
            val = {"idx": -1, "len": 0}
            lv, rv = val[bl] + kl, val[br] + kr
            return {"Lt": lv < rv, "Le": lv <= rv, "Gt": lv > rv, "Ge": lv >= rv, "Eq": lv == rv, "Ne": lv != rv}[op]
        # inner: idx <= len-2; decide only when the comparison is implied for every such idx
        outs = set()
        for d in (-2, -3, -10):
            val = {"idx": d, "len": 0}
            lv, rv = val[bl] + kl, val[br] + kr
            outs.add({"Lt": lv < rv, "Le": lv <= rv, "Gt": lv > rv, "Ge": lv >= rv, "Eq": lv == rv, "Ne": lv != rv}[op])
        if len(outs) == 1:
            return outs.pop()
        raise Unsupported("length comparison undecided in scenario inner")

    def vec_get(self, vec, i):
        if vec.name == "token_infos":
            if i == ("atom", "idx"):
                return Rec("cur")
            if i == ("add", ("atom", "idx"), 1):
                return Rec("next") if self.sc == "inner" else None
            raise Unsupported("token index %r" % (i,))
        if vec.name == "line_infos":
            return Rec("L", idx=i)
        raise Unsupported("vector " + vec.name)

    def apply(self, f, args):
        if isinstance(f, Clo):
            env = dict(f.env)
            for p, a in zip(f.node["params"], args):
                self.bind(p, a, env)
            try:
                return self.ev(f.node["body"], env)
            except Ret as r:
                return r.v
        if isinstance(f, tuple) and f and f[0] == "ctor":
            return (f[1], args[0])
        raise Unsupported("apply %r" % (f,))

    def method(self, name, d, recv, args):
        if isinstance(recv, SVec):
            if name == "len":
                return ("len", recv.name)
            if name == "get":
                v = self.vec_get(recv, args[0])
                return ("Some", v) if v is not None else ("None",)
            raise Unsupported("vec." + name)
        if isinstance(recv, tuple) and recv and recv[0] in ("Some", "None", "Ok", "Err"):
            some = recv[0] in ("Some", "Ok")
            if name == "map_or":
                return self.apply(args[1], [recv[1]]) if some else args[0]
            if name == "map":
                return (recv[0], self.apply(args[0], [recv[1]])) if some else recv
            if name == "ok_or":
                return ("Ok", recv[1]) if some else ("Err", args[0])
            if name == "and_then":
                return self.apply(args[0], [recv[1]]) if some else recv
            if name in ("unwrap_or",):
                return recv[1] if some else args[0]
            raise Unsupported("option." + name)
        if name in ("get", "into", "clone"):
            return recv
        if d in self.fx.bodies:
            return self.call_fn(d, [recv] + args)
        raise Unsupported("method %s on %r" % (name, recv))


def canon(e):
    if isinstance(e, tuple):
        return "(" + " ".join(canon(x) for x in e) + ")"
    return str(e)


# ---------------------------------------------------------------------------
# concretisation on order-type witnesses

def concretize(e, val):
    if isinstance(e, bool) or isinstance(e, int):
        return e
    if isinstance(e, str):
        return e
    if isinstance(e, Rec):
        return ("rec", e.name)
    if not isinstance(e, tuple):
        return e
    t = e[0]
    if t == "atom":
        return val[e[1]]
    if t == "latom":
        k = concretize(e[1], val)
        return val["L"][k][e[2]]
    if t in ("add", "sub"):
        a, b = concretize(e[1], val), concretize(e[2], val)
        return a + b if t == "add" else a - b
    if t in ("lt", "le", "gt", "ge", "eq", "ne"):
        a, b = concretize(e[1], val), concretize(e[2], val)
        return {"lt": a < b, "le": a <= b, "gt": a > b, "ge": a >= b, "eq": a == b, "ne": a != b}[t]
    if t == "and":
        return bool(concretize(e[1], val)) and bool(concretize(e[2], val))
    if t == "or":
        return bool(concretize(e[1], val)) or bool(concretize(e[2], val))
    if t == "not":
        return not concretize(e[1], val)
    if t == "b2i":
        return int(bool(concretize(e[1], val)))
    if t in ("Ok", "Some"):
        return concretize(e[1], val)
    if t == "const":
        return e[1]
    if t == "ite":
        return concretize(e[2], val) if concretize(e[1], val) else concretize(e[3], val)
    if t == "len" and len(e) == 2 and e[1] == "line_infos":
        return val.get("nlines", len(val["L"]))
    raise Unsupported("concretize %r" % (e,))


def collect_L(e, acc):
    if isinstance(e, tuple):
        if e and e[0] == "atom" and isinstance(e[1], str) and e[1].startswith("L["):
            acc.add(e[1][2:e[1].rindex("]")])
        for x in e:
            collect_L(x, acc)
    elif isinstance(e, dict):
        for x in e.values():
            collect_L(x, acc)


def parse_canon(txt):
    """Inverse of canon() for the index expressions that occur (nested tuples of atoms / ints)."""
    toks = txt.replace("(", " ( ").replace(")", " ) ").split()
    pos = [0]

    def rd():
        t = toks[pos[0]]
        pos[0] += 1
        if t == "(":
            items = []
            while toks[pos[0]] != ")":
                items.append(rd())
            pos[0] += 1
            return tuple(items)
        if t.lstrip("-").isdigit():
            return int(t)
        return t
    return rd()


def witnesses(rng, scenario):
    """Concrete valuations for every order type allowed by the buffer invariants."""
    out = []
    cases = ["next-mid-line", "next-at-line-start-cur-nonempty", "next-at-line-start-cur-empty", "same-line-cur-empty-mid"] \
        if scenario == "inner" else ["eof"]
    for case in cases:
        for rep in range(10):
            nlines = 6
            L = {}
            b = rng.randint(0, 5)
            s = rng.randint(0, 3)
            for k in range(nlines):
                L[k] = {"byte": b, "start": s}
                db = rng.randint(1, 9)
                ds = rng.randint(1, db)
                b += db
                s += ds
            cl = rng.randint(1, 3)
            nl = rng.randint(cl, 4) if case != "same-line-cur-empty-mid" else cl
            single = rep >= 8       # a source without any line feed: one line, which starts after a BOM or at 0
            if single:
                if case == "next-at-line-start-cur-nonempty":
                    continue
                L = {0: L[0] if rep == 8 else {"byte": 0, "start": 0}}
                cl = nl = 0
            v = {"L": L, "idx": rng.randint(0, 50), "cur.channel": "CH", "cur.type": "TY", "cur.payload": "PL"}
            if single:
                v["nlines"] = 1
            if scenario == "eof":
                off = rng.randint(0, 3)
                v.update({"cur.line": cl, "cur.byte": L[cl]["byte"] + off, "cur.start": L[cl]["start"] + min(off, 2)})
                v["_case"] = case
                out.append(v)
                continue
            if case == "next-mid-line":
                off = rng.randint(1, 4)
                nb, ns = L[nl]["byte"] + off, L[nl]["start"] + max(1, off - rng.randint(0, 1))
                if nl == cl:
                    coff = rng.randint(0, off)
                    cb, cs = L[cl]["byte"] + coff, L[cl]["start"] + min(coff, ns - L[nl]["start"])
                else:
                    coff = rng.randint(0, 3)
                    cb, cs = L[cl]["byte"] + coff, L[cl]["start"] + min(coff, 2)
            elif case == "next-at-line-start-cur-nonempty":
                if nl == cl:
                    nl = cl + 1
                nb, ns = L[nl]["byte"], L[nl]["start"]
                coff = rng.randint(0, 3)
                cb, cs = L[cl]["byte"] + coff, L[cl]["start"] + min(coff, 2)
                if cb >= nb:
                    cb, cs = L[cl]["byte"], L[cl]["start"]
            elif case == "next-at-line-start-cur-empty":
                nl = cl
                nb, ns = L[nl]["byte"], L[nl]["start"]
                cb, cs = nb, ns
            else:
                off = rng.randint(1, 4)
                nb, ns = L[nl]["byte"] + off, L[nl]["start"] + max(1, off - 1)
                cb, cs = nb, ns
            v.update({"cur.line": cl, "cur.byte": cb, "cur.start": cs, "next.line": nl, "next.byte": nb, "next.start": ns})
            v["_case"] = case
            out.append(v)
    return out


BULK_FIELDS = ["channel", "token_type", "token_index", "start", "stop", "line", "column", "end_line", "end_column", "payload"]
ACCESSORS = {
    "channel": "get_token_channel", "token_type": "get_token_type", "start": "get_token_start", "stop": "get_token_end",
    "line": "get_token_start_line", "column": "get_token_start_column", "end_line": "get_token_end_line",
    "end_column": "get_token_end_column", "payload": "get_token_payload",
}


def run(cx, tags=("dev-none-stable", "rel-none-stable"), fields=None, rule_name="R-BULK-AGREE"):
    rule = rule_name
    cx.rules_run.append(rule)
    rng = random.Random(cx.seed or 1)
    pairs = 0
    for tag in tags:
        fx = cx.facts(tag)
        bulk = fx.fn("buffer::TokenizedBuffer::into_resolved_token_vec")
        if bulk is None:
            cx.violation(rule, "anchors|%s" % tag, "", "into_resolved_token_vec not found")
            continue
        # the two ResolvedTokenInfo constructions: inside the loop (inner tokens) and after it (EOF)
        structs = []
        for node, par in F.walk(bulk["hir"]):
            if node.get("k") == "Struct" and F.norm(node["res"].get("def", "")).endswith("ResolvedTokenInfo"):
                in_loop = any(p.get("k") == "Loop" for p in par)
                structs.append((node, par, in_loop))
        if len(structs) != 2 or sum(1 for s in structs if s[2]) != 1:
            cx.violation(rule, "shape|%s" % tag, bulk["span"], "expected one ResolvedTokenInfo construction inside the loop and one after it, found %d" % len(structs))
            continue
        for node, par, in_loop in structs:
            sc = "inner" if in_loop else "eof"
            try:
                bulk_vals = eval_bulk(fx, bulk, node, par, sc)
            except Unsupported as ex:
                cx.violation(rule, "UNANALYSED|bulk|%s|%s" % (sc, tag), bulk["span"], "bulk view: unsupported construct: %s" % ex)
                continue
            # token_index: a counter initialised to 0 and incremented once per pushed entry
            if in_loop and (fields is None or "token_index" in fields):
                cx.ob(rule, "token_index|counter|%s" % tag, counter_ok(bulk), bulk["span"],
                      "token_index is a counter starting at 0, incremented once per loop iteration")
            for fld in BULK_FIELDS:
                if fields is not None and fld not in fields:
                    continue
                if fld == "token_index":
                    ok = bulk_vals.get(fld) == ("atom", "idx")
                    cx.ob(rule, "%s|%s|%s" % (fld, sc, tag), ok, bulk["span"], "token_index is the running counter" if ok else "token_index is %r" % (bulk_vals.get(fld),))
                    continue
                acc = "buffer::TokenizedBuffer::" + ACCESSORS[fld]
                try:
                    S = Sym(fx, sc)
                    av = S.call_fn_forking(acc, [("self",), ("atom", "idx")])
                except (Unsupported, NeedDecision) as ex:
                    cx.violation(rule, "UNANALYSED|%s|%s|%s" % (fld, sc, tag), "", "accessor %s: unsupported construct: %s" % (ACCESSORS[fld], ex))
                    continue
                bv = bulk_vals.get(fld)
                pairs += 1
                bad = compare(bv, av, rng, sc)
                key = "%s|%s|%s" % (fld, sc, tag)
                cx.ob(rule, key, bad is None, bulk["span"],
                      "bulk %s == %s() on every order type (%s token)" % (fld, ACCESSORS[fld], sc) if bad is None else
                      "bulk view field `%s` differs from %s() for a %s token in case %s: bulk=%r accessor=%r (witness %s)"
                      % (fld, ACCESSORS[fld], sc, bad[0], bad[1], bad[2], bad[3]))
    cx.count(rule, "field_pairs", pairs)
    cx.assume("buffer invariants asserted by add_token: token byte offsets are non-decreasing and not before their line's start")


def counter_ok(bulk):
    init0 = incs = 0
    for node, par in F.walk(bulk["hir"]):
        if node.get("k") == "Let" and node.get("pat", {}).get("name") == "tok_idx":
            init0 += 1 if F.lit_of(node["init"]) == ("int", 0) else 0
        if node.get("k") == "AssignOp" and node.get("op") == "AddAssign":
            l = F.strip(node["l"])
            if l.get("k") == "Path" and l["res"].get("name") == "tok_idx" and F.lit_of(node["r"]) == ("int", 1):
                if any(p.get("k") == "Loop" for p in par):
                    incs += 1
    return init0 == 1 and incs == 1


def eval_bulk(fx, bulk, struct_node, par, sc):
    S = Sym(fx, sc)
    env = {}
    # bind the loop variables by name
    names = {}
    for node, _ in F.walk(bulk["hir"]):
        if node.get("k") == "Bind":
            names[node["id"]] = node["name"]
    for p in bulk["params"]:
        for node, _ in F.walk(p):
            if node.get("k") == "Bind":
                names[node["id"]] = node["name"]
    for lid, nm in names.items():
        if nm == "cur_tok":
            env[lid] = Rec("cur")
        elif nm == "next_tok":
            env[lid] = Rec("next")
        elif nm == "tok_idx":
            env[lid] = ("atom", "idx")
        elif nm == "self":
            env[lid] = ("self",)
    # evaluate the `let`s that precede the struct expression inside the innermost enclosing block(s)
    for p in par:
        if p.get("k") == "Block":
            for s in p["stmts"]:
                if s.get("k") == "Let" and s.get("init") is not None and s["pat"].get("k") == "Bind":
                    nm = s["pat"]["name"]
                    if nm in ("cur_tok", "tok_idx", "vec", "tok_count"):
                        continue
                    if any(x is struct_node for x, _ in F.walk(s)):
                        break
                    try:
                        env[s["pat"]["id"]] = S.ev(s["init"], dict(env))
                    except Unsupported:
                        pass
    v = S.ev(struct_node, env)
    return v[1]


def compare(bv, av, rng, sc):
    if isinstance(av, tuple) and av and av[0] in ("Ok", "Some"):
        av = av[1]
    for w in witnesses(rng, sc):
        try:
            x, y = concretize(bv, w), concretize(av, w)
        except KeyError as ex:
            return (w["_case"], "unbound %s" % ex, "", "")
        except Unsupported as ex:
            return (w["_case"], "cannot evaluate: %s" % ex, "", "")
        if x != y:
            return (w["_case"], x, y, {k: v for k, v in w.items() if not k.startswith("_") and k != "L"})
    return None
