"""Feed cached LEA obligations into a check context, applying the audited tables."""
import json
import os

from . import lea_engine
from .report import Broken, VERIF


def _load(name):
    with open(os.path.join(VERIF, "tables", name)) as f:
        return json.load(f)


def lea_results(cx, tag="dev-none-stable"):
    key = ("lea", tag)
    if key not in cx._facts:
        cx.ensure()
        d = lea_engine.cached(cx.cdir, tag)
        bad = [m for m in d["modes"] if m["error"]]
        if bad:
            raise Broken("LEA failed on mode(s) %s: %s" % ([m["mode"] for m in bad], bad[0]["error"]))
        cx._facts[key] = d
    return cx._facts[key]


_KEEP = {"self", "if", "else", "match", "matches", "as", "true", "false", "mut", "ref", "let", "in", "assertion", "failed",
         "internal", "error", "entered", "unreachable", "code", "i64", "u32", "u64", "usize", "i32", "u8", "bool", "char", "str"}


def norm_msg(s):
    """Whitespace-normalised assertion text with *variable* identifiers abstracted, so that renaming a local or a
    parameter does not change the key (method names, paths, macros, fields and types are kept)."""
    import re
    s = " ".join((s or "").split())

    def repl(m):
        w = m.group(0)
        start, end = m.start(), m.end()
        before = s[start - 1] if start > 0 else ""
        after = s[end:end + 2]
        if w in _KEEP or after.startswith("(") or after.startswith("::") or after.startswith("!") or before in (".", ":"):
            return w
        return "$v"
    return re.sub(r"\b[a-z_][a-z0-9_]*\b", repl, s)


def apply(cx, rules, tag=None, only=None):
    """`only`: rule -> predicate on the obligation key; restricts a rule to the instances that are a necessary
    condition of the property it is attached to (e.g. R-WS-ORDER for the delimiter-deciding modes only).
    Quick tier: the stable-like dev and release configurations (debug assertions compiled in / out: a side effect
    hidden in a debug_assert!, or a release-only fast path, changes the paths).  Thorough tier: also macro_sep."""
    tags = [tag] if tag else (["dev-none-stable", "rel-none-stable"] if cx.tier != "thorough" else ["dev-none-stable", "rel-none-stable", "dev-msep-stable"])
    for t in tags:
        _apply_one(cx, rules, t, only or {})


def _apply_one(cx, rules, tag, only):
    d = lea_results(cx, tag)
    panic_tab = _load("panic_sites.json")["entries"]
    ierr_tab = _load("internal_error_sites.json")["entries"]
    used_panic, used_ierr = set(), set()
    for r in rules:
        if r not in cx.rules_run:
            cx.rules_run.append(r)
    n_unan = 0
    for m in d["modes"]:
        for u in m["unanalysed"]:
            n_unan += 1
            cx.violation("LEA", "UNANALYSED|%s|%s" % (u[0].replace("Lexer::", ""), u[1]), u[2],
                         "LEA has no transfer function for construct '%s' in %s (fail-closed)" % (u[1], u[0]))
    for o in d["obs"]:
        if o["rule"] not in rules:
            continue
        if o["rule"] in only and not only[o["rule"]](o["key"]):
            continue
        ok, detail = o["ok"], o["detail"]
        if not ok and o["rule"] == "R-PANIC":
            fn, _, msg = o["key"].partition("|")
            fn = fn.split(">")[-1]
            for i, ent in enumerate(panic_tab):
                if ent["fn"].replace("Lexer::", "") == fn and norm_msg(msg).startswith(norm_msg(ent["msg"])[:len(norm_msg(msg))]) or \
                        (ent["fn"].replace("Lexer::", "") == fn and norm_msg(ent["msg"]).startswith(norm_msg(msg)[:120])):
                    ok = True
                    detail = "audited (value-level, assumed): " + ent["reason"]
                    used_panic.add(i)
                    cx.assume("panic site %s | %s cannot fire: %s" % (fn, ent["msg"][:60], ent["reason"]))
                    break
            if not ok:
                detail = "UNCLASSIFIED reachable panic: " + detail
        if not ok and o["rule"] == "R-9XXX":
            fn, _, kind = o["key"].partition("|")
            for i, ent in enumerate(ierr_tab):
                if ent["fn"] == fn and ent["kind"] == kind:
                    ok = True
                    detail = "audited (cross-iteration invariant, assumed): " + ent["reason"]
                    used_ierr.add(i)
                    cx.assume("internal error %s in %s unreachable: %s" % (kind, fn, ent["reason"]))
                    break
        cx.ob(o["rule"], o["key"], ok, o["site"], detail + (" [modes: %s]" % ",".join(o.get("modes", [])[:4])))
    per_rule_keys = {}
    for o in d["obs"]:
        if o["rule"] in rules and (o["rule"] not in only or only[o["rule"]](o["key"])):
            per_rule_keys.setdefault(o["rule"], set()).add(o["key"])
    for rule, ks in per_rule_keys.items():
        cx.count(rule, "keys", max(len(ks), cx.counts.get(rule, {}).get("keys", 0)))
    for rule, ms in d["counts"].items():
        if rule in rules:
            for m, n in ms.items():
                # several configurations run the same rule: report the smallest population (floors are lower bounds)
                seen = cx.__dict__.setdefault("_lea_counts", {})
                if isinstance(n, int) and (rule, m) in seen:
                    n = min(n, seen[(rule, m)])
                seen[(rule, m)] = n
                cx.count(rule, m, n)
    cx.analysed.setdefault("LEA", {})[tag] = {
        "modes": len(d["modes"]), "paths": sum(m["paths"] for m in d["modes"]),
        "segments": sum(m["stats"]["segments"] for m in d["modes"]),
        "activations": sum(m["stats"]["activations"] for m in d["modes"]),
        "pruned_paths": sum(m["stats"]["pruned"] for m in d["modes"]),
        "wall_s": d["wall"], "unanalysed": n_unan,
    }
    cx.assume("LEA explores every path of Lexer::lex_token per mode with loops peeled once and widened; "
              "callee outcomes with equal interface signature are merged after their segments were checked")
