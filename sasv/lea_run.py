"""Entry states and drivers for LEA: per-mode paths of `Lexer::lex_token`, finalize_lexing, regions."""
import time

from . import facts as F
from . import lea
from .lea import (Const, Enum, Tup, Term, LA, Obj, SLen, St, Cursor, Interp, Out, LEXER, Unanalysed, Budget)

LEXER_FN = "Lexer::"


def mode_variants(fx):
    a = fx.adts.get("lexer_mode::LexerMode")
    out = []
    for v in a["variants"]:
        out.append((v["name"], v["ctor"], [(f["name"], f["ty"]) for f in v["fields"]]))
    return out


def symbolic_mode(name, ctor, fields, tag="entry"):
    path = "lexer_mode::LexerMode::" + name
    if not fields:
        return Enum(path)
    if fields[0][0].isdigit():
        return Enum(path, [Term("%s.%s@%s" % (name, fn, tag), (), ty) for fn, ty in fields])
    return Enum(path, [], {fn: Term("%s.%s@%s" % (name, fn, tag), (), ty) for fn, ty in fields})


def base_state(top_modes, ckpt="none", default_bottom=False):
    """State at `lex_token` entry: known stack suffix `top_modes` (bottom..top), next char present."""
    st = St()
    st.cursors["main"] = Cursor("main", 0, True)
    st.stack = list(top_modes)
    st.base = 0
    # the slot right below the known suffix exists unless the suffix starts at the bottom (Default)
    st.fields["_certain_floor"] = 0 if default_bottom else -1
    st.ckpt = ckpt
    st.fields["_minc"] = {0: 0}
    if ckpt == "some":
        ck = Cursor("ck", -100000, False)
        st.cursors["ck"] = ck
        st.fields["_stream"] = {"ck": "main"}
        st.ckpt_val = Enum("LexerCheckpoint", [], {
            "cursor": Obj("cursor", "ck"),
            "cur_token_byte_offset": Term("ckpt.cur_token_byte_offset"),
            "cur_token_start": Term("ckpt.cur_token_start"),
            "cur_token_line": Term("ckpt.cur_token_line"),
            "mode_stack_len": Term("ckpt.mode_stack_len"),
            "buffer_checkpoint": Term("ckpt.buffer_checkpoint"),
        })
    from . import lea_prims
    lea_prims.set_eof(st, "main", 0, False)
    return st


_DOMAINS = {}


def mode_field_domains(fx):
    """For every LexerMode variant field: the set of enum constants passed at *all* constructor sites,
    or None when some site passes a non-constant.  {(variant, field): frozenset|None}"""
    key = id(fx)
    if key in _DOMAINS:
        return _DOMAINS[key]
    dom = {}

    def forwarded(variant, field, node, body):
        """The argument is a local bound by a pattern of the same variant at the same field (re-push of an
        existing mode): it adds no new constant."""
        e = F.strip(node)
        if not (e.get("k") == "Path" and "local" in e.get("res", {})):
            return False
        lid = e["res"]["local"]
        for x, _ in F.walk(body["hir"]):
            if x.get("k") == "TupleStruct" and F.norm(x["res"].get("def", "")).endswith("LexerMode::" + variant):
                for i, q in enumerate(x["pats"]):
                    if str(i) == field and q.get("k") == "Bind" and q.get("id") == lid:
                        return True
            if x.get("k") == "Struct" and "pat" in (x.get("fields") or [{}])[0] and F.norm(x["res"].get("def", "")).endswith("LexerMode::" + variant):
                for f in x["fields"]:
                    if f["name"] == field and f["pat"].get("k") == "Bind" and f["pat"].get("id") == lid:
                        return True
        return False

    def note(variant, field, node, body=None):
        c = F.const_of(F.strip(node))
        k = (variant, field)
        if body is not None and c is None and forwarded(variant, field, node, body):
            return
        if c is not None and "::" in c:
            if dom.get(k, frozenset()) is not None:
                dom[k] = dom.get(k, frozenset()) | {c.split("::")[-1]}
        else:
            dom[k] = None

    for fname, b in fx.bodies.items():
        if fx.is_derive(fname):
            continue
        for node, par in F.walk(b["hir"]):
            k = node.get("k")
            # only modes that are actually put on the stack: direct argument of push_mode / Vec::push / insert
            parent = par[-1] if par else {}
            if not (F.is_call(parent) and F.callee(parent) in ("Lexer::push_mode", "std::vec::Vec::push", "std::vec::Vec::insert")):
                continue
            if k == "Call" and node.get("ctor"):
                d = F.norm(node.get("def"))
                if d.startswith("lexer_mode::LexerMode::"):
                    for i, a in enumerate(node["args"]):
                        note(d.split("::")[-1], str(i), a, b)
            elif k == "Struct":
                d = F.norm(node["res"].get("def", ""))
                if d.startswith("lexer_mode::LexerMode::"):
                    for f in node["fields"]:
                        if "e" in f:
                            note(d.split("::")[-1], f["name"], f["e"], b)
    _DOMAINS[key] = dom
    return dom


def seed_mode_facts(fx, st, mode):
    dom = mode_field_domains(fx)
    vname = mode.variant
    items = list(enumerate(mode.args)) + list(mode.fields.items())
    for fld, v in items:
        d = dom.get((vname, str(fld)))
        if d and isinstance(v, Term):
            st.vfacts[v.key()] = (frozenset(d), frozenset())


# modes whose handler is only ever entered with a live checkpoint (owners), established by the
# checkpoint-region exploration (rule R-CKPT/REGION)
OWNER_MODES = {"MaybeMacroCallArgsOrLabel": "some", "MaybeMacroCallArgAssign": "some"}


class ModeRun:
    """All paths of lex_token for one entry mode."""

    def __init__(self, mode_name, outs, interp, wall):
        self.mode = mode_name
        self.outs = outs
        self.unanalysed = list(interp.unanalysed)
        self.wall = wall


def run_mode(fx, name, ctor, fields, ckpt="none", budget=60000, entry_cf=None, below=None):
    I = Interp(fx, budget=budget)
    top = symbolic_mode(name, ctor, fields)
    stack = ([] if below is None else list(below)) + [top]
    st = base_state(stack, ckpt=ckpt, default_bottom=(name == "Default" and not below))
    la0 = LA("main", 0, 0)
    if entry_cf is not None:
        st.set_cf(la0, entry_cf)
    t0 = time.time()
    outs = I.run_fn("Lexer::lex_token", st, [LEXER, la0])
    return ModeRun(name, outs, I, time.time() - t0)


def run_all_modes(fx, ckpt_for=None, budget=60000):
    res = {}
    for name, ctor, fields in mode_variants(fx):
        ck = (ckpt_for or {}).get(name, "none")
        res[name] = run_mode(fx, name, ctor, fields, ckpt=ck, budget=budget)
    return res


def describe_path(o, maxev=60):
    evs = []
    for e in o.st.events:
        if e.kind in ("enter", "leave", "arm", "enter_closure", "leave_closure", "loop_enter", "loop_exit"):
            continue
        evs.append(repr(e)[:200])
    return {"kind": o.kind, "conds": o.st.conds[-30:], "events": evs[:maxev]}
