"""Property -> rules map."""
from . import rules_case

PROPS = {}


def prop(pid, text):
    def deco(fn):
        PROPS[pid] = (fn, text)
        return fn
    return deco


@prop("C16", "static rules R-CASE / R-UPPER-FLOW over the type-checked HIR of sas_lexer: every ASCII-letter "
             "char/u8/&str literal compared with source text is closed under case swap (same arm body), keyword "
             "lookups and &str patterns only see buffers written with to_ascii_uppercase, phf keys are upper-case, "
             "no case-sensitive lexical option. Decides the shape-visible necessary condition, not the behaviour.")
def c16(cx):
    rules_case.run(cx)


def run(cx):
    fn, text = PROPS[cx.pid]
    fn(cx)
    return text
