"""Property -> rules map."""
from . import rules_case, lea_glue, rules_struct, rules_bulk, rules_cfg, rules_py

PROPS = {}


def prop(pid, text):
    def deco(fn):
        PROPS[pid] = (fn, text)
        return fn
    return deco


@prop("C16", "static rules R-CASE / R-UPPER-FLOW over the type-checked HIR of sas_lexer: every ASCII-letter "
             "char/u8/&str literal compared with source text is closed under case swap (same arm body), keyword "
             "lookups and &str patterns only see buffers written with to_ascii_uppercase, phf keys are upper-case, "
             "no case-sensitive lexical option. Decides the shape-visible necessary condition, not the behaviour.")
def c16(cx):
    rules_case.run(cx)


@prop("C01", "path-sensitive effect analysis (LEA) of every Lexer::lex_token path per mode: R-PROGRESS (each path consumes "
             "input or changes the mode stack), R-PANIC (every panic LEA cannot refute is classified; mode/peek/"
             "checkpoint assertions are decided), R-9XXX (no path reaches an internal-error emission), R-CKPT "
             "(checkpoint typestate), R-FRAME-BALANCE (frame pops never empty the pending-statement stack), structural R-STR-INDEX (no unchecked `str[range]` "
             "outside two audited sites: a bound off a char boundary is an input-dependent panic). Decides these shape-visible necessary conditions of totality, not linearity.")
def c01(cx):
    lea_glue.apply(cx, ["R-PROGRESS", "R-PANIC", "R-9XXX", "R-CKPT", "R-FRAME-BALANCE", "R-LOOKAHEAD-LINEAR", "R-PUSH-ORIGIN"])
    rules_struct.r_str_index(cx, cx.facts("dev-none-stable"))


@prop("C04", 'LEA rules R-NEWLINE (every consumed character that may be a line feed is followed by add_line() '
             'before further consumption / token start / end of the step), R-ADVANCE-EVIDENCE (advance_by counts '
             "are dominated by look-ahead evidence on every path), R-PRECONSUME (a dispatcher's pre-consumed first "
             'character is one the scanner loop would consume with the same effects, add_line included), '
             'R-UNCONSUME (a cursor put back to a saved copy takes back the line starts recorded since); '
             'structural R-RESTORE (rollback truncates the line table), R-UNITS-COLUMN (R-UNITS in the functions that '
             'compute a column: a column is a difference of two code-point offsets, never of a byte and a code-point offset). Decides the line-table half; column '
             'arithmetic via C05.')
def c04(cx):
    lea_glue.apply(cx, ["R-NEWLINE", "R-ADVANCE-EVIDENCE", "R-PRECONSUME", "R-OFFSET-PROVENANCE", "R-UNCONSUME"])
    rules_struct.r_units(cx, ["dev-none-stable"], only_fns=rules_struct.column_fns, rule_name="R-UNITS-COLUMN")
    rules_struct.r_restore(cx, cx.facts("dev-none-stable"))
    rules_bulk.run(cx)


@prop("C06", 'LEA rules over every emission of every lex_token path (debug and release configuration): R-CHANNEL '
             '(channel/type sets satisfy the channel policy; ExpectSymbol pairs checked at their constructors), '
             'R-NONEMPTY (only the designated recovery/virtual types can be zero-width - judged both by what was '
             "consumed since the token start and by the next token's start), R-SPELL (symbol tokens consume "
             'exactly one admissible spelling), R-DELIM-SHAPE (comments carry opener and closer), R-MARK-WS '
             '(hidden WS emitted at a mark covers only whitespace), R-ORPHAN (every consumed character belongs to '
             'a token of its step), R-ADVANCE-EVIDENCE, R-KEYWORD-FLOW (a token typed by a keyword-table entry spans '
             'exactly the looked-up text: the key is the whole scanned identifier, the token ends where it ends, '
             'and the length shortcut never skips a key length), R-STOP-SET (a whitespace token ends only in front of '
             'a non-whitespace character), R-REPLAY-AGREE (a loop that re-walks a stretch validated by a look-ahead '
             'loop stops where the look-ahead stopped), R-ERR-NAMES-TOKEN (an unterminated comment / literal is in the '
             'buffer, and last, when its error is recorded: the error names it). Decides these per-type shape clauses, not the '
             "keyword tables' content.")
def c06(cx):
    lea_glue.apply(cx, ["R-CHANNEL", "R-ADVANCE-EVIDENCE", "R-MARK-WS", "R-DELIM-SHAPE", "R-NONEMPTY", "R-SPELL", "R-ORPHAN",
                        "R-KEYWORD-FLOW", "R-REPLAY-AGREE", "R-STOP-SET", "R-ERR-NAMES-TOKEN"])


@prop("C09", 'LEA: R-CKPT (checkpoint typestate on every path and through every live-checkpoint region: no '
             'checkpoint() while one is live, owners always resolve it, owners are entered with one), '
             'R-SPEC-PURITY (no error is recorded while a checkpoint is live: the error list is not rolled back), '
             "R-ERR-PAIR (each 'missing expected' error is immediately followed by its zero-width token at the "
             'same offset, and conversely), R-ERR-ORDER / R-OFFSET-PROVENANCE (error offsets are cursor snapshots, '
             'non-decreasing along a step), R-ERR-NAMES-TOKEN (an "unterminated" error is recorded after the token it '
             'is about, so the token index it remembers is that token); structural R-ERRORS-APPEND-ONLY (the diagnostics list is only pushed '
             'to: nothing removes, reorders or replaces a recorded error).')
def c09(cx):
    lea_glue.apply(cx, ["R-CKPT", "R-ERR-PAIR", "R-SPEC-PURITY", "R-ERR-ORDER", "R-OFFSET-PROVENANCE", "R-ERR-NAMES-TOKEN"])
    rules_struct.r_errors_append_only(cx, cx.facts("dev-none-stable"))


@prop("C07", 'LEA rules R-SECTION (the first literal section of a token is anchored at the token start or right '
             'after its opening quote on every call path; a section end computed as `current offset - k` directly '
             "follows the consumption of the closing quote), R-PRECONSUME (a dispatcher's pre-consumed first "
             'character is not one the scanner would treat as an escape / section boundary) and R-PAYLOAD-ESCAPE '
             '(literal-buffer positions as ordered labels: a token emitted after a literal-section cut does not '
             'take the no-payload branch), R-PAYLOAD-RANGE (both ends of every string payload are positions handed out by '
             'the literal buffer, never a length); structural R-HEX-SINK, R-RESTORE and R-UNITS-PAYLOAD (R-UNITS restricted to the functions '
             'that build string payloads (the text handed to the hex decoder / the literal buffer is sliced by byte '
             'offsets, never by code-point offsets)). Decides where sections begin and end and that unquoting is '
             'reported, not the unquoted content.')
def c07(cx):
    lea_glue.apply(cx, ["R-SECTION", "R-PRECONSUME", "R-PAYLOAD-ESCAPE", "R-PAYLOAD-RANGE"])
    fx = cx.facts("dev-none-stable")
    rules_struct.r_hex_sink(cx, fx)
    rules_struct.r_restore(cx, fx)
    rules_struct.r_units(cx, ["dev-none-stable"], only_fns=rules_struct.payload_fns, rule_name="R-UNITS-PAYLOAD")


@prop("C10", 'LEA rules R-RETYPE-GUARD (a token is retyped through the same look-behind accessor that guarded it), '
             'R-EXPECT-TABLE clauses LPAREN-FIRST / PARENS-BALANCED for every argument-taking built-in keyword, '
             'R-FINALIZE-ONCE (finalize_lexing closes every pending mode exactly once, re-pushing what a delegate '
             'pops), R-GROUP (datalines start, data and terminator are emitted together on every accepting path; a '
             'MacroLabel retype is followed by its one-character hidden colon), R-POP-OWN (a step pops a mode below '
             'its own only after identifying it, so an enclosing StringExpr / ExpectSymbol is never dropped without '
             'its closing token), R-FAMILY-AGREE (the Q/K/QK flavours of a built-in pre-load the same modes as the '
             'built-in itself).')
def c10(cx):
    lea_glue.apply(cx, ["R-RETYPE-GUARD", "R-EXPECT-TABLE", "R-FINALIZE-ONCE", "R-GROUP", "R-POP-OWN", "R-FAMILY-AGREE"])


C13_NOT_DELIM_MODES = ("ExpectSemiOrEOF", "MacroDo", "MacroLocalGlobal", "MacroNameExpr", "MacroDefName")


@prop("C13", 'LEA rules R-NESTING-FLUSH (every exit of a parenthesis-counting argument scanner pops the mode, '
             'stores the local count into it, or provably has count 0), R-DEPTH-GUARD (an argument / expression '
             "mode is closed by ',' or ')' only under a depth-zero test) and R-PRECONSUME (dispatcher and scanner "
             'agree on %-quoted characters: what a dispatcher consumes before handing over is what the scanner '
             'would consume without touching its nesting count), and R-WS-ORDER for the modes that decide call / '
             "definition delimiters (a mode that gives up on a blank is entered behind the whitespace skipper, so a "
             'blank or comment in front of a comma, parenthesis or = does not turn it into text), R-FAMILY-AGREE (the '
             'Q/K/QK flavours of a built-in lex each argument in the same mode - expression or text - as the built-in), R-MARK-WS '
             '(in operand scanners the pending whitespace mark spans only blanks and is placed before the blank it covers, so '
             'an integer operand followed by a line break stays a standalone operand). Decides the '
             'masking mechanics, not operator classification.')
def c13(cx):
    lea_glue.apply(cx, ["R-NESTING-FLUSH", "R-DEPTH-GUARD", "R-PRECONSUME", "R-WS-ORDER", "R-FAMILY-AGREE", "R-MARK-WS"],
                   only={"R-WS-ORDER": lambda k: not k.startswith(C13_NOT_DELIM_MODES)})


@prop("C14", 'LEA rules R-EXPECT-TABLE (for every keyword handled by dispatch_macro_call_or_stat, and for the '
             "iterative %do, the pre-loaded mode sequence satisfies the delimiter clauses of the property: '(' "
             "first, ',' after the first %scan/%substr argument, '=' after the %let / %do name, '/' after the "
             "%copy name, ';' last), R-ERR-PAIR (each 'missing expected' error sits at the recovery token's "
             'offset, incl. finalize_lexing), R-FINALIZE-ONCE (every pending mode is closed exactly once at end of '
             'input), R-EXPECT-SURVIVES (no rollback truncation discards a pending expectation mode) and R-WS-ORDER for '
             'the two expectation modes (they are entered behind the whitespace skipper, so the diagnostic and the '
             'recovery token sit after insignificant blanks, where the delimiter was expected); structural '
             'R-ERRORS-APPEND-ONLY (a recorded diagnostic is never taken back), R-FAMILY-AGREE, and R-BULK-POS '
             '(R-BULK-AGREE for the position fields: the resolved view reports a zero-width recovery token where the '
             'accessors do).')
def c14(cx):
    lea_glue.apply(cx, ["R-EXPECT-TABLE", "R-ERR-PAIR", "R-EXPECT-SURVIVES", "R-FINALIZE-ONCE", "R-WS-ORDER", "R-FAMILY-AGREE"],
                   only={"R-WS-ORDER": lambda k: k.startswith(("ExpectSymbol<-", "ExpectSemiOrEOF<-"))})
    rules_struct.r_errors_append_only(cx, cx.facts("dev-none-stable"))
    rules_bulk.run(cx, fields=("start", "stop", "line", "column", "end_line", "end_column"), rule_name="R-BULK-POS")


@prop("C03", 'structural rules R-CURSOR-COUNT (every chars.next() of Cursor::advance/advance_by is matched by +1 '
             'on char_offset, in the debug and the release configuration; nobody else writes the field), R-UNITS '
             '(a byte/code-point dimension analysis: ByteOffset::new, CharOffset::new, str slicing bounds, '
             'comparisons, and plain-integer parameters / fields whose name declares the unit never mix the two), '
             'R-BOM-USERS (only Lexer::new looks at the byte-order mark) and LEA R-BOM-ORDER on the paths of '
             'Lexer::new (the first char offset counts exactly the skipped mark); R-BULK-OFFSETS (R-BULK-AGREE for the start / '
             'stop fields: the resolved view Python consumes reports the same character offsets as the accessors); LEA '
             'R-ADVANCE-SHORT (an advance_by call that can meet the end of the input relies on an early exit of '
             'Cursor::advance_by that counts exactly the characters consumed).')
def c03(cx):
    rules_bulk.run(cx, fields=("start", "stop"), rule_name="R-BULK-OFFSETS")
    rules_struct.r_cursor_count(cx, ["dev-none-stable", "rel-none-stable"])
    rules_struct.r_units(cx, ["dev-none-stable", "dev-msep-stable"])
    rules_struct.r_bom_const(cx, cx.facts("dev-none-stable"))
    lea_glue.apply(cx, ["R-BOM-ORDER", "R-ADVANCE-SHORT"])


@prop("C02", 'structural rules R-RESTORE (rollback restores cursor / stack length and truncates tokens, lines and '
             'the literal buffer to exactly what checkpoint captured, on every path), R-EOF (EOF only from '
             'finalize_lexing / into_detached, lex() always ends through them), R-BOM-ORDER, R-INSERT-PROVENANCE, '
             'R-CFGDIFF-MACROSEP; LEA rules R-OFFSET-PROVENANCE (byte offset, char offset and line of every '
             'emitted token are snapshots of one and the same cursor position), R-EMIT-ORDER (token starts are '
             'non-decreasing along a step) and R-UNCONSUME (putting the cursor back to a saved copy takes back the '
             'line starts and tokens recorded for the un-consumed text), R-EOF-AT-END (on every path of finalize_lexing '
             'the cursor is never put back and EOF is emitted at the end of the text). R-ADVANCE-SHORT (see C03): the EOF token sits at the end of the text also after an unterminated datalines block.')
def c02(cx):
    fx = cx.facts("dev-none-stable")
    rules_struct.r_restore(cx, fx)
    rules_struct.r_eof(cx, fx)
    rules_cfg.r_cfgdiff_macrosep(cx)
    rules_struct.r_comutate(cx, ["dev-none-stable", "dev-msep-stable"])
    lea_glue.apply(cx, ["R-OFFSET-PROVENANCE", "R-EMIT-ORDER", "R-BOM-ORDER", "R-UNCONSUME", "R-EOF-AT-END", "R-ADVANCE-SHORT"])


@prop("C12", 'R-FRAME-BALANCE (on every lex_token path pending-statement frames and the macro nesting level change only '
             'with %macro/%do/%end/%mend, by exactly one, wherever in the keyword or MacroDo step the operation sits; '
             'frame pops never empty the stack), the residual-state part of R-CKPT (owners always '
             'resolve their checkpoint), R-PENDING, R-EXPECT-TABLE, and R-WS-ORDER: every mode that gives up at '
             'zero consumption on a possibly-blank character is entered behind the whitespace/comment skipper or a '
             'mode that leaves a non-blank (mode push order; audited table of modes for which a blank is a '
             'terminator), R-POP-OWN (no step pops a mode it has not identified) and R-DEPTH-GUARD (an argument value '
             'ends at a comma or parenthesis only at nesting level zero), R-FAMILY-AGREE (flavours of one built-in, and '
             'the arms of the iterative %do, set up the same modes with the same flags), structural R-CHARCLASS (the name-start / '
             'name-continue predicates accept exactly the language\'s classes on ASCII, so a name valid at a call is '
             'valid in the definition). Decides these mode-choreography clauses, '
             'not the absence of errors for all programs.')
def c12(cx):
    lea_glue.apply(cx, ["R-CKPT", "R-PENDING", "R-WS-ORDER", "R-EXPECT-TABLE", "R-FRAME-BALANCE", "R-9XXX", "R-PRECONSUME",
                        "R-POP-OWN", "R-DEPTH-GUARD", "R-FAMILY-AGREE"])
    rules_cfg.r_charclass(cx)


@prop("C17", 'R-BOM-ORDER (the BOM constant is only looked at in Lexer::new, where it is eaten once before the '
             'first offsets are snapshotted and the first line is added with those post-BOM offsets), R-UNITS, '
             'R-NO-ABSOLUTE (no control flow on history lengths or on a source position compared with a constant: '
             "the BOM shifts every offset), R-BOM-VIEWS (outside Lexer::new the source text is only viewed from an "
             "explicit start offset, never from its beginning, where the skipped mark sits) and LEA "
             "R-DATALINES-START (the one look-behind that asks 'is this the start' does not distinguish position 0).")
def c17(cx):
    fx = cx.facts("dev-none-stable")
    rules_struct.r_units(cx, ["dev-none-stable"])
    rules_cfg.r_no_absolute(cx)
    rules_struct.r_bom_const(cx, fx, source_views=True)
    lea_glue.apply(cx, ["R-DATALINES-START", "R-BOM-ORDER"])


@prop("C05", 'sibling-implementation agreement R-BULK-AGREE: the field initialisers of into_resolved_token_vec and '
             'the bodies of the per-token accessors are evaluated symbolically from their HIR and compared on '
             'witnesses of every order type of the compared offsets (token / next token / line start), for inner '
             'tokens and the EOF token, in the debug and the release configuration; R-UNITS on buffer.rs; '
             'R-RESTORE (rollback cuts the line table, so no token precedes the start of its line - the ordering '
             'the agreement relies on) and, for the same reason, the LEA rule R-UNCONSUME (a cursor put back by hand takes '
             'back the line starts recorded for the un-consumed text).')
def c05(cx):
    rules_bulk.run(cx)
    rules_struct.r_units(cx, ["dev-none-stable"])
    # the two views agree only while no token precedes the start of its line: rollback must cut the line table
    rules_struct.r_restore(cx, cx.facts("dev-none-stable"))
    # likewise a cursor put back by hand: a line start recorded for un-consumed text lies behind the next token (seed C05m)
    lea_glue.apply(cx, ["R-UNCONSUME"])


@prop("C11", 'LEA rules on macro-free open-code paths: R-PENDING (the pending-statement flag follows the last '
             "DEFAULT token: false after ';', true otherwise), R-DATALINES-START (datalines is recognised exactly "
             "when the previous DEFAULT-channel token is absent or ';'), R-DELIM-SHAPE (comments consume disjoint "
             'opener and closer), R-SPELL, R-NONEMPTY, R-KEYWORD-FLOW (every keyword of the table is looked up for '
             'the whole identifier), R-STOP-SET (the text scanner of a double-quoted literal ends its token only in '
             'front of the closing quote, end of input or a macro trigger as the property defines it; a whitespace '
             'token only in front of a non-whitespace character), R-REPLAY-AGREE, structural R-CHARCLASS (identifier '
             'character classes) and R-HEX-SINK (a hex string literal is valid exactly when it consists of hex digit '
             'pairs: every pair is checked before it is decoded). Decides the '
             'statement-context flag and token-shape clauses, '
             'not equivalence with a reference lexer.')
def c11(cx):
    lea_glue.apply(cx, ["R-PENDING", "R-DELIM-SHAPE", "R-NONEMPTY", "R-SPELL", "R-DATALINES-START", "R-ADVANCE-EVIDENCE",
                        "R-KEYWORD-FLOW", "R-STOP-SET", "R-REPLAY-AGREE"])
    rules_cfg.r_charclass(cx)
    rules_struct.r_hex_sink(cx, cx.facts("dev-none-stable"))


@prop("C15", 'R-STATE-INVENTORY (no state outside the lexer object), R-NO-ABSOLUTE (no control flow on history '
             'lengths or absolute offsets), R-LOOKBEHIND + R-DATALINES-START (statement-start look-behind treats '
             "'no previous token' like ';' and ignores hidden tokens), R-CKPT (no checkpoint survives a closed "
             'boundary), R-FRAME-BALANCE and R-PENDING (pending-statement frames and the open-code flag are back '
             'to their initial value after a closed statement), R-POP-OWN (a step never pops modes of an enclosing '
             'construct it has not identified), R-PAYLOAD-RANGE (payload ranges are literal-buffer positions, so they '
             'shift with the buffer a closed prefix left behind). Decides that no channel other than the declared '
             'configuration carries information across a closed boundary; not equality of results for all (A, B).')
def c15(cx):
    rules_cfg.r_state_inventory(cx)
    rules_cfg.r_no_absolute(cx)
    rules_cfg.r_lookbehind(cx)
    lea_glue.apply(cx, ["R-CKPT", "R-DATALINES-START", "R-FRAME-BALANCE", "R-PENDING", "R-POP-OWN", "R-PAYLOAD-RANGE"])


@prop("C18", 'R-CFGDIFF-MACROSEP: structural diff of the feature-off and feature-on HIR: feature-only code may '
             "only read and emit/insert MacroSep; R-MACROSEP-GUARD: the predicate's full truth table "
             "(constant-folded for all 289 x 288 arguments) is false after start/';'/label/%then/%else and true "
             'only before macro statement keywords or labels; R-MACROSEP-EMIT (LEA on the macro_sep '
             'configuration): a MacroSep is produced only on paths where the predicate returned true, asked about '
             'the DEFAULT look-behind token, on DEFAULT without payload; R-INSERT-PROVENANCE; R-LOOKBEHIND (rows '
             "None and ';' identical); R-COMUTATE (derived buffer state is maintained by every mutator, incl. the "
             'feature-only insert_token); R-ENUM-INDEX (the token index handed to insert_token by the feature-only look-back '
             'iterator is an enumerate() over the whole token vector, nothing dropped before the numbering).')
def c18(cx):
    rules_cfg.r_cfgdiff_macrosep(cx)
    rules_cfg.r_lookbehind(cx)
    rules_struct.r_comutate(cx, ["dev-none-stable", "dev-msep-stable"])
    rules_struct.r_enum_index(cx, cx.facts("dev-msep-stable"))
    lea_glue.apply(cx, ["R-MACROSEP-EMIT"], tag="dev-msep-stable")


@prop("C19", "R-STATE-INVENTORY (no global/interior-mutable state, no env/time/thread/rand calls), R-CFGDIFF-DEBUG "
             "(debug-only code only observes), R-CFGDIFF-NIGHTLY + R-FALLIBLE-APPEND (nightly and stable halves of "
             "add_token append exactly once), R-UNSAFE-GUARD, R-CURSOR-COUNT in both profiles, and R-PANIC (a reachable "
             "debug assertion makes debug and release differ).")
def c19(cx):
    rules_cfg.r_state_inventory(cx)
    rules_cfg.r_cfgdiff_debug(cx)
    rules_cfg.r_cfgdiff_nightly(cx)
    rules_struct.r_unsafe_guard(cx, cx.facts("dev-none-stable"))
    rules_struct.r_cursor_count(cx, ["dev-none-stable", "rel-none-stable"])
    lea_glue.apply(cx, ["R-PANIC"])


@prop("C20", "R-WIRE (rmp_serde::to_vec tuple order, Serialize field order of the linked crate's ResolvedTokenInfo "
             '/ ErrorInfo vs the array_like msgspec Structs, Payload untagged), R-ENUMS (Python IntEnums equal the '
             "linked crate's discriminants; build.rs regenerates the committed modules byte-identically), "
             "R-PY-SOURCE (the lexed text is the caller's string: extracted losslessly on the Rust side, passed "
             'through unchanged by the Python wrapper). Decides the schema half only.')
def c20(cx):
    rules_py.run(cx)


def run(cx):
    fn, text = PROPS[cx.pid]
    fn(cx)
    return text
