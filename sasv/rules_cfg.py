"""Configuration-differential and state-inventory rules: R-CFGDIFF (debug_assertions, rustc_nightly, macro_sep),
R-FALLIBLE-APPEND, R-STATE-INVENTORY, R-NO-ABSOLUTE, R-MACROSEP-GUARD, R-LOOKBEHIND, R-OFFSET-PROVENANCE (insert_token)."""
import difflib

from . import facts as F
from .rules_struct import live_walk, field_chain, top_level_stmts, contains, is_self_field

PURE_STD = ("std::option::Option::", "std::result::Result::", "core::slice::", "std::vec::Vec::len", "std::vec::Vec::capacity",
            "std::vec::Vec::with_capacity", "std::iter::", "core::str::", "std::cmp::", "std::convert::", "std::clone::",
            "std::ops::", "core::num::", "std::num::", "std::char::", "unicode_ident::", "std::string::String::len",
            "std::string::String::as_str", "std::default::", "bit_vec::BitVec::len", "bit_vec::BitVec::get",
            "std::prelude::", "phf::", "std::fmt::", "core::fmt::", "std::io::_print", "lexical::", "encoding::",
            "std::string::String::with_capacity", "std::string::String::new", "std::vec::Vec::new",
            "core::panicking::", "std::mem::", "std::borrow::", "std::str::", "core::array::", "std::hash::")
MUTATORS = ("std::vec::Vec::push", "std::vec::Vec::pop", "std::vec::Vec::insert", "std::vec::Vec::truncate",
            "std::vec::Vec::reserve", "std::vec::Vec::push_within_capacity", "std::vec::Vec::clear", "std::vec::Vec::retain",
            "std::vec::Vec::extend", "std::string::String::push_str", "std::string::String::truncate",
            "bit_vec::BitVec::push", "bit_vec::BitVec::pop", "bit_vec::BitVec::set", "std::option::Option::take",
            "core::slice::last_mut", "core::slice::get_mut", "core::slice::iter_mut")


def action_seq(fx, body):
    """Ordered observable actions of the *live* tree of a body: effectful calls, field writes, control exits."""
    out = []
    for n, par in live_walk(body["hir"]):
        k = n.get("k")
        if k in ("Call", "MethodCall"):
            c = F.callee(n)
            if not c or c.endswith(("::Some", "::Ok", "::Err", "::None")) or n.get("ctor"):
                continue
            in_assert = any("assert" in (p.get("mac") or "") for p in par) or "assert" in (n.get("mac") or "")
            out.append(("call", c, in_assert, F.file_line(F.site(n))))
        elif k in ("Assign", "AssignOp"):
            ch = field_chain(n["l"])
            out.append(("write", ".".join(ch[-2:]) if len(ch) > 1 else ch[-1], False, F.file_line(F.site(n))))
        elif k == "Ret":
            out.append(("ret", "", False, F.file_line(F.site(n))))
    return out


def effectful(fx, callee):
    if callee.startswith(MUTATORS):
        return True
    if callee.startswith(PURE_STD) or callee.startswith("closure:"):
        return False
    b = fx.bodies.get(callee)
    if b is not None:
        ins = b.get("inputs") or []
        return bool(ins) and ins[0].startswith("&mut")
    return not callee.startswith("std::") and not callee.startswith("core::")


DEBUG_ONLY_FIELDS = {"prev_char", "last_state", "source_len"}
DEBUG_OBSERVERS = {
    "Lexer::mode": "reads the top of the mode stack (writes only on an empty stack, excluded by R-SELFPOP/R-9XXX)",
    "Lexer::pending_token_text": "reads the pending token text (emits an internal error only if R-9XXX is violated)",
    "Lexer::dump_lexer_state_to_console": "debug print",
    "cursor::Cursor::prev_char": "debug-only accessor",
}


def debug_only_fn_observes(fd, fr, bd):
    """A function compiled only with debug assertions is harmless when everything it does is what debug-only code
    inside a shared function may do: pure calls, known observers, writes to debug-only fields, other debug-only
    functions of the same kind, and the infinite-loop detector's report (emit_error with the constant
    InternalErrorInfiniteLoop - unreachable by R-PROGRESS)."""
    for n, par in live_walk(bd["hir"]):
        k = n.get("k")
        if k in ("Call", "MethodCall"):
            c = F.callee(n)
            if not c or c.endswith(("::Some", "::Ok", "::Err", "::None")) or n.get("ctor"):
                continue
            if c in DEBUG_OBSERVERS or not effectful(fd, c):
                continue
            if c == "Lexer::emit_error":
                args = n.get("args") or []
                a = F.strip(args[-1]) if args else {}
                if a.get("k") == "Path" and (F.const_of(a) or "").endswith("ErrorKind::InternalErrorInfiniteLoop"):
                    continue
                return False
            if c in fd.bodies and c not in fr.bodies and c != bd.get("name") and debug_only_fn_observes(fd, fr, fd.bodies[c]):
                continue
            return False
        elif k in ("Assign", "AssignOp"):
            ch = field_chain(n["l"])
            # a store into a plain local is fine; a store through self / a reference must hit a debug-only field
            if len(ch) > 1 and ch[-1] not in DEBUG_ONLY_FIELDS:
                return False
            if len(ch) == 1 and ch[0] == "?":
                return False
    return True


def r_cfgdiff_debug(cx, dev_tag="dev-none-stable", rel_tag="rel-none-stable"):
    """Debug-only code may only observe: read, panic, print, write debug-only fields (C19)."""
    rule = "R-CFGDIFF-DEBUG"
    cx.rules_run.append(rule)
    fd, fr = cx.facts(dev_tag), cx.facts(rel_tag)
    nfun = ndiff = 0
    for name, bd in fd.bodies.items():
        if fd.is_derive(name) or bd["kind"] not in ("Fn", "AssocFn") or bd["hir"].get("exp"):
            continue
        br = fr.bodies.get(name)
        if br is None:
            # function exists only with debug assertions
            ok = name in DEBUG_OBSERVERS or debug_only_fn_observes(fd, fr, bd)
            if ok and name not in DEBUG_OBSERVERS:
                cx.ob(rule, "debug-only-fn|%s" % name, True, bd["span"],
                      "debug-only function %s only observes: pure calls, known observers, writes to debug-only fields, and "
                      "the loop detector's InternalErrorInfiniteLoop report (unreachable: R-PROGRESS)" % name)
                continue
            cx.ob(rule, "debug-only-fn|%s" % name, ok, bd["span"],
                  "debug-only function %s: %s" % (name, DEBUG_OBSERVERS.get(name, "")) if ok else
                  "function %s exists only in debug builds and is not a known observer" % name)
            continue
        nfun += 1
        sd, sr = action_seq(fd, bd), action_seq(fr, br)
        kd, kr = [(a[0], a[1]) for a in sd], [(a[0], a[1]) for a in sr]
        if kd == kr:
            continue
        ndiff += 1
        sm = difflib.SequenceMatcher(None, kd, kr, autojunk=False)
        for tag, i1, i2, j1, j2 in sm.get_opcodes():
            if tag == "equal":
                continue
            for a in sd[i1:i2]:
                kind, what, in_assert, site = a
                ok, why = True, ""
                if kind == "call":
                    if what in DEBUG_OBSERVERS:
                        why = DEBUG_OBSERVERS[what]
                    elif what in fd.bodies and what not in fr.bodies and debug_only_fn_observes(fd, fr, fd.bodies[what]):
                        why = "debug-only function that only observes"
                    elif effectful(fd, what):
                        # the loop detector: emits InternalErrorInfiniteLoop and returns; discharged by R-PROGRESS
                        if name == "Lexer::lex" and what in ("Lexer::emit_error", "buffer::WorkTokenizedBuffer::into_detached", "cursor::Cursor::remaining_len"):
                            why = "debug-only loop detector (unreachable: R-PROGRESS)"
                        else:
                            ok, why = False, "debug-only call of effectful %s" % what
                elif kind == "write":
                    fld = what.split(".")[-1]
                    ok = fld in DEBUG_ONLY_FIELDS or name == "Lexer::lex"
                    why = "writes debug-only field" if ok else "debug-only write to %s" % what
                elif kind == "ret":
                    ok = name == "Lexer::lex" or in_assert
                    why = "loop detector early return (unreachable: R-PROGRESS)" if ok else "debug-only early return"
                cx.ob(rule, "%s|debug-only|%s|%s" % (name.replace("Lexer::", ""), kind, what), ok, site,
                      ("debug-only %s %s: %s" % (kind, what, why)) if ok else
                      ("%s in %s exists only when debug assertions are on: debug and release builds can diverge" % (why, name)))
            for a in sr[j1:j2]:
                kind, what, in_assert, site = a
                ok = kind == "call" and not effectful(fr, what) or (name == "cursor::Cursor::advance_by")
                cx.ob(rule, "%s|release-only|%s|%s" % (name.replace("Lexer::", ""), kind, what), ok, site,
                      "release-only %s %s (pure, or the release half of advance_by checked by R-CURSOR-COUNT)" % (kind, what) if ok else
                      "release-only effect %s %s in %s" % (kind, what, name))
    cx.count(rule, "functions_compared", nfun)
    cx.analysed[rule] = {"functions": nfun, "differing": ndiff}


def r_cfgdiff_nightly(cx, st_tag="dev-none-stable", ni_tag="dev-none-nightly"):
    rule = "R-CFGDIFF-NIGHTLY"
    cx.rules_run.append(rule)
    fs, fn = cx.facts(st_tag), cx.facts(ni_tag)
    differing = []
    for name, bs in fs.bodies.items():
        if fs.is_derive(name) or bs["kind"] not in ("Fn", "AssocFn") or bs["hir"].get("exp"):
            continue
        bn = fn.bodies.get(name)
        if bn is None:
            cx.violation(rule, "missing|%s" % name, bs["span"], "function %s missing under the nightly configuration" % name)
            continue
        a, b = [(x[0], x[1]) for x in action_seq(fs, bs)], [(x[0], x[1]) for x in action_seq(fn, bn)]
        if a != b:
            differing.append(name)
            extra_n = [x for x in b if x not in a]
            extra_s = [x for x in a if x not in b]
            allowed = {"std::vec::Vec::push_within_capacity", "std::vec::Vec::reserve", "std::vec::Vec::capacity", "std::vec::Vec::push"}
            ok = all(k == "call" and w in allowed for k, w in extra_n + extra_s)
            cx.ob(rule, "%s|diff" % name, ok, bs["span"],
                  "nightly/stable halves differ only in how the token is appended (%s)" % sorted({w for _, w in extra_n}) if ok else
                  "nightly-only / stable-only actions in %s: %s / %s" % (name, extra_n, extra_s))
    # every push_within_capacity must fall back to an infallible push of the rejected value
    n = 0
    for name, bn in fn.bodies.items():
        for x, par in F.walk(bn["hir"]):
            if x.get("k") == "MethodCall" and x.get("name") == "push_within_capacity":
                n += 1
                ok = False
                why = "its result is not matched with `if let Err(value)`"
                for p in reversed(par):
                    if p.get("k") == "If" and p["cond"].get("k") == "LetCond" and contains(p["cond"]["init"], lambda y: y is x):
                        pat = p["cond"]["pat"]
                        bound = None
                        if pat.get("k") == "TupleStruct" and F.norm(pat["res"].get("def", "")).endswith("Err") and pat["pats"] and pat["pats"][0].get("k") == "Bind":
                            bound = pat["pats"][0]["id"]
                        pushes = []
                        for s in top_level_stmts(p["then"]):
                            e = F.strip(s.get("e", s)) if s.get("k") in ("Semi", "Expr") else F.strip(s)
                            if e.get("k") == "MethodCall" and e.get("name") == "push" and F.norm(e.get("def") or "") == "std::vec::Vec::push":
                                a0 = F.strip(e["args"][0])
                                if a0.get("k") == "Path" and a0["res"].get("local") == bound:
                                    pushes.append(e)
                        ok = bound is not None and len(pushes) == 1
                        why = "the Err branch pushes the rejected value exactly once with Vec::push" if ok else \
                            "the Err branch does not unconditionally Vec::push the rejected value (a second fallible push drops the token)"
                        break
                cx.rules_run.append("R-FALLIBLE-APPEND") if "R-FALLIBLE-APPEND" not in cx.rules_run else None
                cx.ob("R-FALLIBLE-APPEND", "%s|push_within_capacity" % name, ok, F.file_line(F.site(x)),
                      "push_within_capacity: " + why)
    cx.count(rule, "differing_functions", len(differing))
    cx.count("R-FALLIBLE-APPEND", "sites", n)


def macrosep_truth(cx, tag="dev-msep-stable"):
    """Truth table of the pure predicate macro::needs_macro_sep(prev, tok) over all Option<TokenType> x TokenType,
    obtained by constant-folding its HIR with LEA's evaluator (no shape assumptions about how it is written).
    Returns {"variants": [...], "true": {prev_name_or_None: [tok...]}, "undecided": n}."""
    import json as _json
    import os
    from . import lea, lea_engine
    key = ("macrosep_truth", tag)
    if key in cx._facts:
        return cx._facts[key]
    fx = cx.facts(tag)
    out_path = os.path.join(cx.cdir, "macrosep-truth-%s-%s.json" % (tag, lea_engine.engine_hash()))
    if os.path.exists(out_path):
        with open(out_path) as f:
            cx._facts[key] = _json.load(f)
        return cx._facts[key]
    names = [k for k in fx.bodies if k == "macro::needs_macro_sep"]
    a = fx.adts.get("token_type::TokenType")
    if not names or not a:
        cx._facts[key] = None
        return None
    vs = [v["name"] for v in a["variants"]]
    I = lea.Interp(fx, budget=10 ** 7)
    I.probe_enabled = False
    I.prune = False
    T = lambda v: lea.Enum("token_type::TokenType::" + v)
    true = {}
    undecided = 0
    for pn in [None] + vs:
        p_ = lea.NONE if pn is None else lea.Enum("Some", [T(pn)])
        row = []
        for t in vs:
            try:
                outs = I.run_fn(names[0], lea.St(), [p_, T(t)])
            except (lea.Unanalysed, lea.Budget):
                outs = []
            vals = {getattr(o.val, "v", None) for o in outs}
            if len(outs) < 1 or not vals <= {True, False} or len(vals) != 1:
                undecided += 1
            elif True in vals:
                row.append(t)
        true["None" if pn is None else pn] = row
    d = {"variants": vs, "true": true, "undecided": undecided}
    tmp = out_path + ".tmp%d" % os.getpid()
    with open(tmp, "w") as f:
        _json.dump(d, f)
    os.replace(tmp, out_path)
    cx._facts[key] = d
    return d


def r_cfgdiff_macrosep(cx, off_tag="dev-none-stable", on_tag="dev-msep-stable"):
    """Feature-only code may only read and emit/insert MacroSep guarded by needs_macro_sep (C18)."""
    rule = "R-CFGDIFF-MACROSEP"
    cx.rules_run.append(rule)
    f0, f1 = cx.facts(off_tag), cx.facts(on_tag)
    nsep = 0
    differing = []
    for name, b1 in f1.bodies.items():
        if f1.is_derive(name) or b1["kind"] not in ("Fn", "AssocFn") or b1["hir"].get("exp"):
            continue
        b0 = f0.bodies.get(name)
        if b0 is None:
            ok = name in ("macro::needs_macro_sep", "buffer::WorkTokenizedBuffer::insert_token", "buffer::WorkTokenizedBuffer::iter_token_infos")
            cx.ob(rule, "feature-only-fn|%s" % name, ok, b1["span"], "feature-only helper %s" % name if ok else "unexpected feature-only function %s" % name)
            continue
        a0, a1 = action_seq(f0, b0), action_seq(f1, b1)
        k0, k1 = [(x[0], x[1]) for x in a0], [(x[0], x[1]) for x in a1]
        if k0 == k1:
            continue
        differing.append(name)
        sm = difflib.SequenceMatcher(None, k0, k1, autojunk=False)
        for tag, i1, i2, j1, j2 in sm.get_opcodes():
            if tag == "equal":
                continue
            for a in a0[i1:i2]:
                cx.ob(rule, "%s|removed|%s|%s" % (name, a[0], a[1]), False, a[3], "the macro_sep feature removes %s %s from %s" % (a[0], a[1], name))
            for a in a1[j1:j2]:
                kind, what, _, site = a
                ok = True
                why = "pure read"
                if kind == "write":
                    ok, why = False, "feature-only write to %s" % what
                elif kind == "ret":
                    ok, why = False, "feature-only early return"
                elif what in ("Lexer::emit_token", "buffer::WorkTokenizedBuffer::insert_token"):
                    why = "MacroSep emission (checked below)"
                elif effectful(f1, what):
                    ok, why = False, "feature-only call of effectful %s" % what
                cx.ob(rule, "%s|feature-only|%s|%s" % (name.replace("Lexer::", ""), kind, what), ok, site,
                      "feature-only %s %s: %s" % (kind, what, why) if ok else
                      "%s in %s: the macro_sep feature changes more than the inserted separators" % (why, name))
    # MacroSep emissions: constant arguments, guarded by needs_macro_sep, position of the token they precede
    for name, b1 in f1.bodies.items():
        if f1.is_derive(name):
            continue
        for x, par in F.walk(b1["hir"]):
            if not F.is_call(x):
                continue
            c = F.callee(x)
            args = F.call_args(x)
            consts = [F.const_of(F.strip(a)) for a in args]
            if "token_type::TokenType::MacroSep" not in [k for k in consts if k]:
                continue
            if c not in ("Lexer::emit_token", "buffer::WorkTokenizedBuffer::insert_token"):
                continue
            nsep += 1
            # (guard and constant arguments of the emission are decided on LEA's paths: R-MACROSEP-EMIT in lea_rules)
            if c.endswith("insert_token"):
                # position triple copied from the token it is inserted before
                trip = args[4:7]
                bases = []
                flds = []
                for t in trip:
                    ch = field_chain(t)
                    bases.append(".".join(ch[:-1]))
                    flds.append(ch[-1])
                okp = len(set(bases)) == 1 and flds == ["byte_offset", "start", "line"] and bases[0] not in ("self", "")
                cx.rules_run.append("R-INSERT-PROVENANCE") if "R-INSERT-PROVENANCE" not in cx.rules_run else None
                cx.ob("R-INSERT-PROVENANCE", "%s|insert_token|triple" % name.replace("Lexer::", ""), okp, F.file_line(F.site(x)),
                      "the inserted token copies byte offset, char offset and line of one and the same token (%s)" % bases[0] if okp else
                      "insert_token position triple is not taken from one token record: %s" % list(zip(bases, flds)))
    # the predicate itself: its full truth table, by constant folding (independent of how it is written)
    b = f1.fn("macro::needs_macro_sep")
    tt = macrosep_truth(cx, on_tag) if b is not None else None
    if b is None or tt is None:
        cx.violation("R-MACROSEP-GUARD", "needs_macro_sep|missing", "", "needs_macro_sep not found in the macro_sep configuration")
    else:
        cx.ob("R-MACROSEP-GUARD", "needs_macro_sep|decided", tt["undecided"] == 0, b["span"],
              "needs_macro_sep folds to a constant for all %d x %d arguments" % (len(tt["variants"]) + 1, len(tt["variants"])) if tt["undecided"] == 0 else
              "needs_macro_sep could not be evaluated for %d argument pairs (fail-closed)" % tt["undecided"])
        bad_prev = {p_: tt["true"].get(p_, []) for p_ in ("None", "SEMI", "MacroLabel", "KwmThen", "KwmElse") if tt["true"].get(p_)}
        cx.ob("R-MACROSEP-GUARD", "needs_macro_sep|prev-exclusions", not bad_prev, b["span"],
              "no separator after start of input / ';' / label / %then / %else, for every following token type" if not bad_prev else
              "needs_macro_sep is true directly after %s" % ", ".join("%s (before %s)" % (p_, v[:3]) for p_, v in sorted(bad_prev.items())))
        a = f1.adts.get("token_type::TokenType")
        stat = set()
        if a:
            discr = {v["name"]: v["discr"] for v in a["variants"]}
            rb = f1.fn("token_type::MACRO_STAT_TOKEN_TYPE_RANGE")
            if rb:
                ns = [F.const_of(x) for x, _ in F.walk(rb["hir"]) if x.get("k") == "Path" and F.const_of(x)]
                ds = [discr[n.split("::")[-1]] for n in ns if n and n.split("::")[-1] in discr]
                if len(ds) >= 2:
                    stat = {n for n, d in discr.items() if min(ds) <= d <= max(ds)}
        targets = set()
        for p_, row in tt["true"].items():
            targets.update(row)
        ok2 = bool(targets) and bool(stat) and (targets - {"MacroLabel"}) <= stat
        cx.ob("R-MACROSEP-GUARD", "needs_macro_sep|targets", bool(ok2), b["span"],
              "separators only before macro statement keywords / labels (%d target types)" % len(targets) if ok2 else
              "needs_macro_sep is true before non-statement token types %s" % sorted(targets - stat - {"MacroLabel"})[:6])
        cx.count("R-MACROSEP-GUARD", "truth_rows", len(tt["true"]))
    cx.count(rule, "differing_functions", len(differing))
    cx.rules_run.append("R-MACROSEP-GUARD") if "R-MACROSEP-GUARD" not in cx.rules_run else None
    cx.count("R-MACROSEP-GUARD", "emission_sites", nsep)


# ---------------------------------------------------------------------------

FORBIDDEN_CALL_PREFIX = ("std::env::", "std::time::", "std::fs::", "std::thread::", "std::process::", "std::net::", "rand::",
                         "std::collections::hash_map::RandomState", "std::sync::", "std::cell::", "std::io::stdin",
                         "std::time::Instant", "std::time::SystemTime")
FORBIDDEN_TYPES = ("std::cell::", "std::sync::atomic", "std::sync::Mutex", "std::sync::RwLock", "std::sync::OnceLock",
                   "std::thread::", "std::collections::HashMap", "std::collections::HashSet", "RandomState", "*mut ", "*const ")


def state_inventory(fx):
    """Violations of the 'function of the source alone' inventory in a fact set; returns list of (key, site, text)."""
    bad = []
    for s in fx.statics:
        if s["mutable"]:
            bad.append(("static-mut|%s" % F.norm(s["path"]), s["span"], "mutable static %s" % s["path"]))
        if s["interior_mut"]:
            bad.append(("static-interior-mut|%s" % F.norm(s["path"]), s["span"], "static %s has interior mutability (%s)" % (s["path"], s["ty"])))
    for name, a in fx.adts.items():
        for v in a["variants"]:
            for f in v["fields"]:
                if any(t in f["ty"] for t in FORBIDDEN_TYPES):
                    bad.append(("field-type|%s.%s" % (name, f["name"]), a["span"], "field %s.%s has type %s" % (name, f["name"], f["ty"])))
    for name, b in fx.bodies.items():
        if fx.is_derive(name) or b["hir"].get("exp"):
            continue
        for x, _ in F.walk(b["hir"]):
            if F.is_call(x):
                c = x.get("def") or ""
                cn = F.norm(c) or ""
                if cn.startswith(FORBIDDEN_CALL_PREFIX) or "thread_local" in cn:
                    bad.append(("call|%s|%s" % (name, cn), F.file_line(F.site(x)), "%s calls %s" % (name, cn)))
            if x.get("k") == "Cast" and ("*const" in (F.strip(x["e"]).get("ty") or "") or "*mut" in (F.strip(x["e"]).get("ty") or "")) and x.get("ty") in ("usize", "u64"):
                bad.append(("ptr-cast|%s" % name, F.file_line(F.site(x)), "%s casts a pointer to an integer" % name))
        mir = b.get("mir") or {}
        for c in mir.get("calls", []):
            cn = F.norm(c.get("callee")) or ""
            if cn.startswith(FORBIDDEN_CALL_PREFIX):
                bad.append(("call|%s|%s" % (name, cn), F.file_line(c.get("sp", "?")), "%s calls %s" % (name, cn)))
    return bad


class _FakeFacts:
    """Tiny positive fixture for the zero-expected inventory rule."""

    def __init__(self):
        self.statics = [{"path": "lexer::COUNTER", "mutable": True, "interior_mut": False, "ty": "usize", "span": "fixture"},
                        {"path": "lexer::CACHE", "mutable": False, "interior_mut": True, "ty": "std::sync::atomic::AtomicUsize", "span": "fixture"}]
        self.adts = {"lexer::Lexer": {"span": "fixture", "variants": [{"fields": [{"name": "seen", "ty": "std::cell::Cell<u32>"}]}]}}
        self.bodies = {"Lexer::emit_token": {"kind": "AssocFn", "hir": {"k": "Call", "def": "std::time::Instant::now", "f": {"k": "Path", "res": {}}, "args": [], "sp": "fixture:1:1"},
                                             "mir": {"calls": []}}}

    def is_derive(self, n):
        return False


def r_state_inventory(cx, tags=("dev-none-stable", "dev-all-stable")):
    rule = "R-STATE-INVENTORY"
    cx.rules_run.append(rule)
    fixture_hits = state_inventory(_FakeFacts())
    cx.ob(rule, "selftest|fixture", len(fixture_hits) >= 4, "", "the inventory rule fires on its positive fixture (%d hits)" % len(fixture_hits))
    n = 0
    for tag in tags:
        fx = cx.facts(tag)
        bad = state_inventory(fx)
        n += len(fx.statics) + len(fx.adts)
        for key, site, text in bad:
            cx.violation(rule, key, site, text + ": the result may depend on something other than the source text")
        cx.ob(rule, "inventory|%s" % tag, not bad, "", "%d statics (none mutable / interior-mutable), %d ADTs, no call into env/time/fs/thread/process/rand" % (len(fx.statics), len(fx.adts)))
    cx.count(rule, "items", n)


def is_constant(n):
    n = F.strip(n)
    k = n.get("k")
    if k == "Lit":
        return True
    if k == "Path":
        return n.get("res", {}).get("dk", "").startswith(("Const", "AssocConst"))
    if k == "Call":
        d = F.norm(n.get("def") or "")
        if d.endswith("::default") or d.endswith("::new") or d.endswith("::from") or d.endswith("::into"):
            return all(is_constant(a) for a in n.get("args", []))
    if k == "MethodCall" and n.get("name") in ("into", "get"):
        return is_constant(n["recv"])
    if k == "Cast":
        return is_constant(n["e"])
    return False


def is_position(n):
    """Does the expression denote a position in the source (token start / cursor offset), not a length?"""
    n = F.strip(n)
    k = n.get("k")
    if k == "Field":
        return n.get("name") in ("cur_token_byte_offset", "cur_token_start", "byte_offset", "start", "at_byte_offset", "at_char_offset") or \
            (n.get("name") == "0" and is_position(n["base"]))
    if k == "MethodCall":
        if n.get("name") in ("cur_byte_offset", "cur_char_offset", "char_offset"):
            return True
        if n.get("name") in ("into", "get"):
            return is_position(n["recv"])
        return False
    if k == "Call":
        d = F.norm(n.get("def") or "")
        if d.endswith("::from") or d.endswith("::into"):
            return any(is_position(a) for a in n.get("args", []))
    if k == "Cast":
        return is_position(n["e"])
    if k == "Path":
        nm = n.get("res", {}).get("name") or ""
        return "offset" in nm and "len" not in nm
    return False


def r_no_absolute(cx, tags=("dev-none-stable", "dev-msep-stable")):
    """History lengths (token count, line count, error count) never decide control flow in the lexer (C15/C17)."""
    rule = "R-NO-ABSOLUTE"
    cx.rules_run.append(rule)
    hits = []
    sites = 0
    for tag in tags:
        fx = cx.facts(tag)
        for name, b in fx.bodies.items():
            if not (name.startswith("Lexer::") or name.startswith("macro::")) or fx.is_derive(name):
                continue
            for x, par in live_walk(b["hir"]):
                if x.get("k") != "MethodCall":
                    continue
                nm, recv = x.get("name"), field_chain(x["recv"])[-1]
                hist = (nm in ("token_count", "line_count") and recv == "buffer") or (nm == "len" and recv in ("errors", "token_infos", "line_infos"))
                if not hist:
                    continue
                sites += 1
                in_assert = any("assert" in (p.get("mac") or "") for p in par)
                decides = False
                for i, p in enumerate(par):
                    child = par[i + 1] if i + 1 < len(par) else x
                    if p.get("k") == "If" and (p["cond"] is child or contains(p["cond"], lambda y: y is x)):
                        decides = True
                    if p.get("k") == "Match" and contains(p["scrut"], lambda y: y is x):
                        decides = True
                if decides and not in_assert and name != "Lexer::prep_error_info_at_cur_offset":
                    hits.append((name, nm, F.file_line(F.site(x))))
    # absolute offsets compared with a constant (`cur_token_byte_offset == ByteOffset::default()`, `char_offset() < 3`):
    # a BOM or any closed prefix shifts every offset, so such a test changes what is lexed afterwards
    from .rules_struct import Units, BYTE, CHAR
    abs_sites = 0
    abs_hits = []
    for tag in tags:
        fx = cx.facts(tag)
        for name, b in fx.bodies.items():
            if not (name.startswith("Lexer::") or name.startswith("macro::")) or fx.is_derive(name):
                continue
            U = None
            for x, par in live_walk(b["hir"]):
                if x.get("k") != "Binary" or x.get("op") not in ("Eq", "Ne", "Lt", "Le", "Gt", "Ge"):
                    continue
                if U is None:
                    U = Units(fx, name, b)
                ul, ur = U.unit(x["l"]), U.unit(x["r"])
                if not ((ul in (BYTE, CHAR) and is_constant(x["r"])) or (ur in (BYTE, CHAR) and is_constant(x["l"]))):
                    continue
                side = x["l"] if ul in (BYTE, CHAR) else x["r"]
                if not is_position(side):
                    continue       # a length / distance, not a position in the source
                abs_sites += 1
                if any("assert" in (p.get("mac") or "") for p in par) or "assert" in (x.get("mac") or ""):
                    continue
                abs_hits.append((name, F.file_line(F.site(x))))
    for name, site in abs_hits:
        cx.violation(rule, "%s|absolute-offset" % name, site, "%s branches on an absolute source offset compared with a constant: a leading BOM "
                     "or any closed prefix shifts all offsets, so the same text lexes differently at a different position" % name)
    cx.ob(rule, "no-absolute-offset-branch", not abs_hits, "", ("no lexer control flow compares a source position with a constant (%d candidate comparisons)" % abs_sites)
          if not abs_hits else "%d branch(es) on an absolute source offset" % len(abs_hits))
    for name, nm, site in hits:
        cx.violation(rule, "%s|%s" % (name, nm), site, "%s branches on the history length %s(): what was lexed before a closed boundary changes later lexing" % (name, nm))
    cx.ob(rule, "no-history-branch", not hits, "", "no lexer control flow depends on token/line/error counts (%d reads inspected)" % sites)
    cx.count(rule, "reads", sites)


def r_lookbehind(cx, tags=("dev-none-stable", "dev-msep-stable")):
    """Statement-start look-behind treats 'no previous token' like 'previous token is ;' (C15/C17/C18).
    The datalines half is decided on LEA's paths (R-DATALINES-START); here: needs_macro_sep, by its truth table."""
    rule = "R-LOOKBEHIND"
    cx.rules_run.append(rule)
    fx1 = cx.facts(tags[1])
    b2 = fx1.fn("macro::needs_macro_sep")
    tt = macrosep_truth(cx, tags[1]) if b2 is not None else None
    ok2 = tt is not None and tt["undecided"] == 0 and tt["true"].get("None") == tt["true"].get("SEMI")
    cx.ob(rule, "needs_macro_sep|none-equals-semi", ok2, b2["span"] if b2 else "",
          "needs_macro_sep treats 'no previous token' exactly like ';' for every token type" if ok2 else
          "needs_macro_sep distinguishes 'no previous token' from ';' (or could not be evaluated)")
    cx.count(rule, "sites", 1)


# ---------------------------------------------------------------------------
# R-CHARCLASS (C11, C12): the name character predicates are the language's classes on ASCII

def r_charclass(cx, tag="dev-none-stable"):
    """Constant-fold every predicate listed in tables/char_classes.json over the ASCII characters with LEA's evaluator
    (no assumption on how the predicate is written: `matches!`, ranges, library calls) and compare with the set the
    language defines.  The definition site of a macro and its call sites use different predicates of this family; if one
    of them drifts, a well-formed name is accepted in one place and rejected in the other."""
    import json as _json
    import os
    from . import lea
    rule = "R-CHARCLASS"
    cx.rules_run.append(rule)
    fx = cx.facts(tag)
    with open(os.path.join(os.path.dirname(os.path.dirname(os.path.abspath(__file__))), "tables", "char_classes.json")) as f:
        tab = _json.load(f)["predicates"]
    I = lea.Interp(fx, budget=10 ** 6)
    I.probe_enabled = False
    n = 0
    for fn, want in sorted(tab.items()):
        if fn not in fx.bodies:
            cx.ob(rule, "%s|present" % fn, False, "", "predicate %s not found in the crate (anchor missing)" % fn)
            continue
        got, undecided = set(), []
        for o in range(1, 128):
            c = chr(o)
            try:
                outs = I.run_fn(fn, lea.St(), [lea.Const("char", c)])
            except (lea.Unanalysed, lea.Budget):
                outs = []
            vals = {getattr(x.val, "v", None) for x in outs}
            if len(vals) != 1 or not vals <= {True, False}:
                undecided.append(c)
            elif True in vals:
                got.add(c)
            n += 1
        missing = sorted(set(want) - got - set(undecided))
        extra = sorted(got - set(want))
        ok = not missing and not extra and not undecided
        cx.ob(rule, "%s|ascii-class" % fn, ok, F.file_line(fx.bodies[fn]["span"]),
              "%s accepts exactly the %d ASCII characters of the language's class" % (fn, len(want)) if ok else
              "%s differs from the language's class on ASCII: rejects %s, accepts %s%s - another site of the same family "
              "still uses the full class, so the same name is valid in one construct and invalid in the other"
              % (fn, missing[:6], extra[:6], (", undecided %s" % undecided[:4]) if undecided else ""))
    cx.count(rule, "evaluations", n)
