"""Run LEA with all rules over every lexer mode (in parallel), cache the obligations per tree/config."""
import json
import multiprocessing
import os
import time

from . import facts as F
from . import lea, lea_run, lea_rules

ENGINE_VERSION = 1


def _worker(args):
    fact_path, mode_name, ckpt = args
    t0 = time.time()
    fx = F.Facts(fact_path)
    mv = {n: (n, c, f) for n, c, f in lea_run.mode_variants(fx)}
    name, ctor, fields = mv[mode_name]
    I = lea.Interp(fx, budget=400000)
    I.mode_domains = lea_run.mode_field_domains(fx)
    R = lea_rules.Rules(fx, I)
    I.checkers.append(R.check_segment)
    with open(os.path.join(os.path.dirname(os.path.dirname(os.path.abspath(__file__))), "tables", "preconsume_benign.json")) as f:
        I.probe_benign = {k: set(v) for k, v in json.load(f)["locals"].items()}
    top = lea_run.symbolic_mode(name, ctor, fields)
    below = []
    if name == "MakeCheckpoint":
        # context established by rule R-CKPT/MAKE-CHECKPOINT-CONTEXT
        below = [lea_run.symbolic_mode(*mv["MaybeMacroCallArgAssign"], tag="below"),
                 lea_run.symbolic_mode(*mv["WsOrCStyleCommentOnly"], tag="below")]
    st = lea_run.base_state(below + [top], ckpt=ckpt, default_bottom=(name == "Default"))
    lea_run.seed_mode_facts(fx, st, top)
    la0 = lea.LA("main", 0, 0)
    err = None
    outs = []
    try:
        outs = I.run_fn("Lexer::lex_token", st, [lea.LEXER, la0])
    except (lea.Unanalysed, lea.Budget) as ex:
        err = "%s: %s" % (type(ex).__name__, ex)
    path_obs = {}
    if err is None:
        path_obs = lea_rules.path_rules(fx, I, R, mode_name, ckpt, outs)
    obs = list(I.obs.values()) + list(path_obs.values())
    wss = lea_rules.ws_summary(I, mode_name, len(below), outs) if err is None else None
    frs = lea_rules.frame_summary(I, mode_name, outs) if err is None else None
    return {
        "ws": wss, "frames": frs,
        "mode": mode_name, "ckpt": ckpt, "paths": len(outs), "wall": round(time.time() - t0, 2), "error": err,
        "unanalysed": I.unanalysed, "stats": I.stats, "obs": obs,
        "counts": {r: {m: sorted(v) for m, v in ms.items()} for r, ms in R.counts.items()},
    }


def _finalize_worker(args):
    """Paths of Lexer::finalize_lexing for every mode left on top of the stack at end of input."""
    fact_path, = args
    t0 = time.time()
    fx = F.Facts(fact_path)
    from . import lea_prims
    obs = {}
    counts = {}
    unan = []
    npaths = 0
    stats = {"activations": 0, "segments": 0, "pruned": 0, "paths_before_prune": 0}
    err = None
    for name, ctor, fields in lea_run.mode_variants(fx):
        I = lea.Interp(fx, budget=400000)
        I.mode_domains = lea_run.mode_field_domains(fx)
        R = lea_rules.Rules(fx, I)
        R.in_finalize = True
        I.checkers.append(R.check_segment)
        top = lea_run.symbolic_mode(name, ctor, fields)
        # a mode that is entered with a live checkpoint can also meet the end of input with it
        st = lea_run.base_state([top], ckpt=lea_run.OWNER_MODES.get(name, "none"), default_bottom=(name == "Default"))
        lea_run.seed_mode_facts(fx, st, top)
        lea_prims.set_eof(st, "main", 0, True)
        try:
            outs = I.run_fn("Lexer::finalize_lexing", st, [lea.LEXER])
        except (lea.Unanalysed, lea.Budget) as ex:
            err = "%s: %s" % (type(ex).__name__, ex)
            continue
        npaths += len(outs)
        po = lea_rules.finalize_rules(fx, I, R, name, outs)
        for o in list(I.obs.values()) + list(po.values()):
            k = (o["rule"], o["key"])
            if k not in obs:
                obs[k] = o
            else:
                obs[k]["n"] += o.get("n", 1)
                if obs[k]["ok"] and not o["ok"]:
                    obs[k].update(ok=False, site=o["site"], detail=o["detail"])
        for r, ms in R.counts.items():
            for m, v in ms.items():
                counts.setdefault(r, {}).setdefault(m, set()).update(v)
        unan += I.unanalysed
        for k2 in stats:
            stats[k2] += I.stats[k2]
    return {"mode": "<finalize>", "ckpt": "none", "paths": npaths, "wall": round(time.time() - t0, 2), "error": err,
            "unanalysed": unan, "stats": stats, "obs": list(obs.values()),
            "counts": {r: {m: sorted(v) for m, v in ms.items()} for r, ms in counts.items()}}


def _new_worker(args):
    """Paths of Lexer::new (BOM handling, first line, first token start)."""
    fact_path, = args
    t0 = time.time()
    fx = F.Facts(fact_path)
    I = lea.Interp(fx, budget=100000)
    I.probe_enabled = False
    st = lea_run.base_state([], ckpt="none")
    err = None
    outs = []
    try:
        outs = I.run_fn("Lexer::new", st, [lea.Obj("source", None), lea.NONE, lea.NONE])
    except (lea.Unanalysed, lea.Budget) as ex:
        err = "%s: %s" % (type(ex).__name__, ex)
    obs, n = lea_rules.bom_rules(I, outs) if err is None else ([], 0)
    return {"mode": "<new>", "ckpt": "none", "paths": len(outs), "wall": round(time.time() - t0, 2), "error": err,
            "unanalysed": I.unanalysed, "stats": I.stats, "obs": obs, "counts": {"R-BOM-ORDER": {"new_paths": list(range(n))}}}


def _dispatch(t):
    if t[1] == "<finalize>":
        return _finalize_worker((t[0],))
    if t[1] == "<new>":
        return _new_worker((t[0],))
    return _worker(t)


def compute(fact_path, jobs=None):
    fx = F.Facts(fact_path)
    tasks = []
    for name, ctor, fields in lea_run.mode_variants(fx):
        tasks.append((fact_path, name, lea_run.OWNER_MODES.get(name, "none")))
    # heavy modes first
    order = {"MacroEval": 0, "Default": 1, "StringExpr": 2}
    tasks.append((fact_path, "<finalize>", "none"))
    tasks.append((fact_path, "<new>", "none"))
    tasks.sort(key=lambda t: order.get(t[1], 9))
    t0 = time.time()
    with multiprocessing.Pool(jobs or min(16, len(tasks))) as pool:
        results = pool.map(_dispatch, tasks, chunksize=1)
    merged = {}
    counts = {}
    for r in results:
        for o in r["obs"]:
            k = (o["rule"], o["key"])
            cur = merged.get(k)
            if cur is None:
                merged[k] = dict(o)
                merged[k]["modes"] = [r["mode"]]
            else:
                cur["n"] += o.get("n", 1)
                if r["mode"] not in cur["modes"]:
                    cur["modes"].append(r["mode"])
                if cur["ok"] and not o["ok"]:
                    cur.update(ok=False, site=o["site"], detail=o["detail"])
        for rule, ms in r["counts"].items():
            for m, keys in ms.items():
                counts.setdefault(rule, {}).setdefault(m, set()).update(keys)
    with open(os.path.join(os.path.dirname(os.path.dirname(os.path.abspath(__file__))), "tables", "ws_terminated_modes.json")) as f:
        exempt = json.load(f)["modes"]
    ws_obs, nruns = lea_rules.ws_order_obs([r["ws"] for r in results if r.get("ws")], exempt)
    for o in ws_obs:
        o["modes"] = []
        merged[(o["rule"], o["key"])] = o
    fr_obs, nfr = lea_rules.frame_balance_obs([r["frames"] for r in results if r.get("frames")])
    for o in fr_obs:
        merged[(o["rule"], o["key"])] = o
    for o in lea_rules.keyword_length_obs(counts) + lea_rules.replay_agree_obs(counts) + lea_rules.family_agree_obs(counts):
        merged[(o["rule"], o["key"])] = o
    counts.setdefault("R-FRAME-BALANCE", {})["keyword_paths"] = set(range(nfr))
    counts.setdefault("R-WS-ORDER", {})["push_runs"] = set(range(nruns))
    counts["R-WS-ORDER"]["blind_modes"] = {r["ws"]["mode"] for r in results if r.get("ws") and r["ws"]["blind"]}
    return {
        "version": ENGINE_VERSION,
        "wall": round(time.time() - t0, 2),
        "modes": [{k: v for k, v in r.items() if k not in ("obs", "counts", "ws", "frames")} for r in results],
        "ws_summaries": [{k: v for k, v in r["ws"].items() if k != "runs"} for r in results if r.get("ws")],
        "obs": sorted(merged.values(), key=lambda o: (o["rule"], o["key"])),
        "counts": {r: {m: len(v) for m, v in ms.items()} for r, ms in counts.items()},
    }


def engine_hash():
    import hashlib
    h = hashlib.sha256()
    here = os.path.dirname(os.path.abspath(__file__))
    for fn in ("lea.py", "lea_prims.py", "lea_rules.py", "lea_run.py", "lea_engine.py", "chars.py", "facts.py"):
        with open(os.path.join(here, fn), "rb") as f:
            h.update(f.read())
    for fn in ("ws_terminated_modes.json", "spellings.json", "preconsume_benign.json", "stop_sets.json", "family_exceptions.json"):
        with open(os.path.join(os.path.dirname(here), "tables", fn), "rb") as f:
            h.update(f.read())
    return h.hexdigest()[:12]


def cached(cdir, tag="dev-none-stable"):
    out = os.path.join(cdir, "lea-%s-%s.json" % (tag, engine_hash()))
    if os.path.exists(out):
        with open(out) as f:
            d = json.load(f)
        if d.get("version") == ENGINE_VERSION:
            return d
    d = compute(os.path.join(cdir, "sas_lexer-%s.json" % tag))
    tmp = out + ".tmp%d" % os.getpid()
    with open(tmp, "w") as f:
        json.dump(d, f)
    os.replace(tmp, out)
    return d
