"""Thorough tier: test the checker both ways on scratch copies of /repo — every seeded defect of the property
must make the check fire, every benign edit must keep it silent.  Tied to the reference tree recorded in
seeded/REFERENCE.json: on any other tree the corpus is skipped (an edited tree is judged by the rules alone)."""
import glob
import json
import os
import shutil
import subprocess
import tempfile

from . import extract

VERIF = extract.VERIF


def reference_hash():
    try:
        return json.load(open(os.path.join(VERIF, "seeded", "REFERENCE.json")))["tree_hash"]
    except (OSError, KeyError, ValueError):
        return None


def run_variant(pid, patch, label):
    """Apply `patch` to a scratch copy of /repo and run the quick check of pid against it."""
    scratch = tempfile.mkdtemp(prefix="sasv-selftest-", dir=os.environ.get("SASV_SCRATCH", "/tmp"))
    try:
        repo = os.path.join(scratch, "repo")
        subprocess.run(["rsync", "-a", "--exclude", "target", "--exclude", ".git", extract.REPO.rstrip("/") + "/", repo + "/"], check=True)
        r = subprocess.run(["patch", "-p1", "-s", "-i", os.path.abspath(patch)], cwd=repo, capture_output=True, text=True)
        if r.returncode != 0:
            return {"label": label, "applied": False, "detail": (r.stdout + r.stderr)[-300:]}
        ev = os.path.join(scratch, "evidence")
        env = dict(os.environ, SASV_REPO=repo, SASV_EVIDENCE=ev, VERIF_TIER="quick")
        r = subprocess.run(["python3", "-m", "sasv.cli", pid, "--tier", "quick"], cwd=VERIF, env=env, capture_output=True, text=True)
        viol = [l for l in r.stdout.splitlines() if l.startswith("VIOLATION")]
        rules = sorted({l.split("rule=")[1].split()[0] for l in viol if "rule=" in l})
        return {"label": label, "applied": True, "rc": r.returncode, "violations": len(viol), "rules": rules,
                "first": viol[0][:300] if viol else ""}
    finally:
        shutil.rmtree(scratch, ignore_errors=True)


def run(cx):
    ref = reference_hash()
    res = {"reference_tree": ref, "current_tree": cx.tree, "mutants": [], "benign": [], "skipped": None}
    if ref != cx.tree:
        res["skipped"] = "tree differs from the reference tree the corpus was validated on"
        cx.analysed["selftest"] = res
        return True
    ok = True
    jobs = []   # (kind, label, patch, expected rules)
    for d in sorted(glob.glob(os.path.join(VERIF, "seeded", "C*"))):
        try:
            meta = json.load(open(os.path.join(d, "meta.json")))
        except (OSError, ValueError):
            continue
        detect = meta.get("detected_by", {})
        if cx.pid not in detect:
            continue
        jobs.append(("mutant", os.path.basename(d), os.path.join(d, "patch.diff"), detect[cx.pid]))
    benign = sorted(glob.glob(os.path.join(VERIF, "selftest", "benign", "*.patch")))
    full = os.environ.get("SASV_SELFTEST_FULL") == "1"
    if not full:
        # bounded by default (a cold cache costs ~3.5 min per variant): the 8 newest seeds of the property and 4 benign
        # rewrites chosen by rotation on the property number; SASV_SELFTEST_FULL=1 or tools/regress.py run everything
        jobs = jobs[-8:]
        k = int(cx.pid[1:]) if cx.pid[1:].isdigit() else 0
        benign = [benign[(k * 4 + i) % len(benign)] for i in range(min(4, len(benign)))] if benign else []
    res["selection"] = "full corpus" if full else "8 newest seeds of the property + 4 benign rewrites (rotation); full corpus: SASV_SELFTEST_FULL=1 or tools/regress.py"
    for p in benign:
        jobs.append(("benign", os.path.basename(p), p, None))
    from concurrent.futures import ThreadPoolExecutor
    with ThreadPoolExecutor(max_workers=int(os.environ.get("SASV_SELFTEST_JOBS", "4"))) as ex:
        results = list(ex.map(lambda j: run_variant(cx.pid, j[2], j[1]), jobs))
    for (kind, label, patch, exp), r in zip(jobs, results):
        if kind == "mutant":
            r["expected_rules"] = exp
            fired = r.get("applied") and r.get("rc") == 1 and any(x in r.get("rules", []) for x in exp)
            r["ok"] = bool(fired)
            ok = ok and fired
            res["mutants"].append(r)
        else:
            silent = r.get("applied") and r.get("rc") == 0
            r["ok"] = bool(silent)
            ok = ok and silent
            res["benign"].append(r)
    cx.analysed["selftest"] = res
    return ok
