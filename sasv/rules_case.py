"""C16 — ASCII case independence: R-CASE, R-UPPER-FLOW, phf keys, lexical options.

Decided clause: every place where the crate's own code compares source text
against an ASCII *letter* (char / u8 / &str literal, in a pattern or as operand
of a comparison) accepts the case-swapped letter with the same outcome, or the
compared value provably went through `to_ascii_uppercase` and the literal is
upper-case.  Witness when violated: the spelling that uses the missing case.
"""
import itertools
import json

from . import facts as F

CMP_METHODS = {"contains", "starts_with", "ends_with", "eq", "ne", "find", "rfind", "split", "strip_prefix",
               "strip_suffix", "trim_start_matches", "trim_end_matches", "eat_char", "position",
               "eq_ignore_ascii_case", "matches", "rsplit", "split_once", "rsplit_once", "trim_matches"}

CONFIGS = ["dev-none-stable", "dev-msep-stable", "rel-none-stable"]


def is_letter(lt, v):
    if lt == "char" and isinstance(v, str) and len(v) == 1 and v.isascii() and v.isalpha():
        return True
    if lt == "byte" and isinstance(v, int) and v < 128 and chr(v).isalpha():
        return True
    return False


def swap(lt, v):
    if lt == "char":
        return v.swapcase()
    return ord(chr(v).swapcase())


def canon(node):
    """Structural form of a node without spans / types / expansion marks."""
    if isinstance(node, dict):
        return {k: canon(v) for k, v in node.items() if k not in ("sp", "ty", "exp", "mac", "id")}
    if isinstance(node, list):
        return [canon(x) for x in node]
    return node


def cj(node):
    return json.dumps(canon(node), sort_keys=True)


# ---- pattern alternatives -------------------------------------------------

def leaf_alts(p):
    """Expand a pattern into a list of alternatives; each alternative is a tuple of leaves.
    Leaf = ('lit', lt, v) | ('range', lt, lo, hi, incl) | ('any',) | ('other', text)."""
    k = p.get("k")
    if k == "Or":
        out = []
        for q in p["pats"]:
            out += leaf_alts(q)
        return out
    if k == "Tuple":
        parts = [leaf_alts(q) for q in p["pats"]]
        out = []
        n = 1
        for x in parts:
            n *= max(1, len(x))
        if n > 4096:
            return [(("other", "too-large"),)]
        for combo in itertools.product(*parts):
            out.append(tuple(itertools.chain.from_iterable(combo)))
        return out
    if k == "TupleStruct":
        # e.g. Some('x' | 'X') -> position-wise like a tuple, tagged by the ctor
        parts = [leaf_alts(q) for q in p["pats"]]
        tag = ("other", "ctor:" + F.norm(p["res"].get("def", "?")))
        out = []
        for combo in itertools.product(*parts):
            out.append((tag,) + tuple(itertools.chain.from_iterable(combo)))
        return out
    if k in ("Ref", "Box", "Deref"):
        return leaf_alts(p["pat"])
    if k == "Expr":
        e = p["e"]
        if e["k"] == "Lit":
            return [(("lit", e.get("lt"), e.get("v") if not isinstance(e.get("v"), list) else tuple(e["v"])),)]
        return [(("other", "path:" + F.norm(e["res"].get("def", "?"))),)]
    if k == "Range":
        lo, hi = p.get("lo") or {}, p.get("hi") or {}
        return [(("range", lo.get("lt") or hi.get("lt"), lo.get("v"), hi.get("v"), bool(p.get("incl"))),)]
    if k in ("Wild",):
        return [(("any",),)]
    if k == "Bind":
        if p.get("sub"):
            return leaf_alts(p["sub"])
        return [(("any",),)]
    if k == "Path":
        return [(("other", "path:" + F.norm(p["res"].get("def", "?"))),)]
    return [(("other", k),)]


def leaf_covers(leaf, lt, v):
    if leaf[0] == "any":
        return True
    if leaf[0] == "lit":
        return leaf[1] == lt and leaf[2] == v
    if leaf[0] == "range" and leaf[1] == lt:
        lo, hi, incl = leaf[2], leaf[3], leaf[4]
        if lt == "char":
            a, b, x = (ord(lo) if lo is not None else 0), (ord(hi) if hi is not None else 0x10FFFF), ord(v)
        else:
            a, b, x = (lo if lo is not None else 0), (hi if hi is not None else 255), v
        return a <= x <= b if incl else a <= x < b
    return False


def alt_covers(alt, target):
    if len(alt) != len(target):
        return False
    for leaf, t in zip(alt, target):
        if t[0] == "lit" and t[1] in ("char", "byte"):
            if not leaf_covers(leaf, t[1], t[2]):
                return False
        else:
            if leaf[0] != "any" and leaf != t:
                return False
    return True


def letters_in_range(leaf):
    lt, lo, hi, incl = leaf[1], leaf[2], leaf[3], leaf[4]
    if lt not in ("char", "byte") or lo is None or hi is None:
        return []
    a, b = (ord(lo), ord(hi)) if lt == "char" else (lo, hi)
    if not incl:
        b -= 1
    out = []
    for x in range(max(a, 65), min(b, 122) + 1):
        if chr(x).isalpha():
            out.append(chr(x) if lt == "char" else x)
    return out


def check_match(cx, fname, m, stats):
    arms = m["arms"]
    expanded = []
    for a in arms:
        expanded.append((leaf_alts(a["pat"]), cj(a.get("guard")), cj(a["body"]), a))
    for idx, (alts, g, b, a) in enumerate(expanded):
        for alt in alts:
            for pos, leaf in enumerate(alt):
                cases = []
                if leaf[0] == "lit" and is_letter(leaf[1], leaf[2]):
                    cases = [(leaf[1], leaf[2])]
                elif leaf[0] == "range":
                    cases = [(leaf[1], x) for x in letters_in_range(leaf)]
                for lt, v in cases:
                    stats["letters"] += 1
                    sv = swap(lt, v)
                    target = list(alt)
                    target[pos] = ("lit", lt, sv)
                    ok = False
                    why = "no arm accepts the case-swapped alternative"
                    # first arm (in order) that covers the swapped alternative decides
                    for j, (alts2, g2, b2, a2) in enumerate(expanded):
                        if any(alt_covers(x, tuple(target)) for x in alts2):
                            if g2 == g and b2 == b:
                                ok = True
                            else:
                                # an earlier/later arm with a *different* body or guard takes the twin;
                                # a guarded arm may fall through, so keep looking only if it is guarded
                                if g2 != "null" and not (g2 == g and b2 == b):
                                    continue
                                why = "case-swapped alternative is handled by a different arm (%s)" % F.file_line(a2.get("sp", "?"))
                            break
                    lit = v if lt == "char" else chr(v)
                    key = "%s|match|pos%d|%s" % (fname, pos, lit)
                    cx.ob("R-CASE", key, ok, F.file_line(a.get("sp", "?")),
                          ("letter %r at tuple position %d: case-swapped twin %r accepted by the same arm body" % (lit, pos, lit.swapcase()))
                          if ok else ("letter %r (position %d) in a match arm: %s; witness: spell it %r" % (lit, pos, why, lit.swapcase())))


def or_chain(node, parents):
    """Maximal `||` chain containing node: list of operand nodes."""
    top = node
    for p in reversed(parents):
        if p.get("k") in ("DropTemps", "Use"):
            top = p
            continue
        if p.get("k") == "Binary" and p.get("op") == "Or":
            top = p
        else:
            break
    ops = []

    def flat(n):
        n0 = n
        while n0.get("k") in ("DropTemps", "Use"):
            n0 = n0["e"]
        if n0.get("k") == "Binary" and n0.get("op") == "Or":
            flat(n0["l"])
            flat(n0["r"])
        else:
            ops.append(n0)
    flat(top)
    return ops


def run(cx):
    cx.rules_run += ["R-CASE", "R-UPPER-FLOW"]
    total = {"letters": 0, "arrays": 0, "str_sets": 0, "str_patterns": 0, "phf_keys": 0, "upper_flows": 0}
    seen_keys = set()
    for tag in CONFIGS:
        fx = cx.facts(tag)
        stats = {"letters": 0, "arrays": 0, "str_sets": 0, "str_patterns": 0}
        for fname, b in fx.bodies.items():
            if fx.is_derive(fname):
                continue
            short = fname
            for node, par in F.walk(b["hir"]):
                k = node.get("k")
                if k == "Match":
                    check_match(cx, short, node, stats)
                    # &str patterns with letters
                    for a in node["arms"]:
                        for alt in leaf_alts(a["pat"]):
                            for leaf in alt:
                                if leaf[0] == "lit" and leaf[1] == "str" and any(c.isalpha() and c.isascii() for c in leaf[2]):
                                    stats["str_patterns"] += 1
                                    check_str_pattern(cx, fx, short, b, node, leaf[2], a)
                elif k == "Array":
                    lits = [F.lit_of(e) for e in node["elems"]]
                    if lits and all(l is not None for l in lits) and any(is_letter(*l) for l in lits):
                        stats["arrays"] += 1
                        vals = {(lt, v) for lt, v in lits}
                        for lt, v in lits:
                            if is_letter(lt, v):
                                stats["letters"] += 1
                                lit = v if lt == "char" else chr(v)
                                ok = (lt, swap(lt, v)) in vals
                                cx.ob("R-CASE", "%s|array|%s" % (short, lit), ok, F.file_line(F.site(node)),
                                      "array literal compared with source text contains %r %s its case twin" % (lit, "and" if ok else "but NOT"))
                elif k == "Lit" and "sp" in node:
                    lt, v = node.get("lt"), node.get("v")
                    if is_letter(lt, v):
                        # already handled inside arrays; patterns carry no 'sp'
                        if par and par[-1].get("k") == "Array":
                            continue
                        if par and par[-1].get("k") == "AddrOf" and len(par) > 1 and par[-2].get("k") == "Array":
                            continue
                        stats["letters"] += 1
                        check_expr_letter(cx, short, node, par, lt, v)
                    elif lt == "str" and not node.get("exp") and any(c.isalpha() and c.isascii() for c in (v or "")):
                        check_expr_str(cx, short, node, par, v, stats)
        for kx, n in stats.items():
            total[kx] = max(total[kx], n)
    # phf keys are upper-case and the looked-up text was upper-cased
    fx = cx.facts("dev-none-stable")
    for sname in ("token_type::KEYWORDS", "token_type::MKEYWORDS"):
        b = fx.fn(sname)
        if b is None:
            cx.violation("R-UPPER-FLOW", "phf|%s|missing" % sname, "", "keyword map static %s not found" % sname)
            continue
        keys = phf_entries(b)
        total["phf_keys"] += len(keys)
        bad = [k for k, _ in keys if k != k.upper()]
        cx.ob("R-UPPER-FLOW", "phf|%s|upper" % sname, not bad, b["span"],
              "%d keys of %s are all upper-case" % (len(keys), sname) if not bad else "keys with lower-case letters: %s" % bad[:5])
    total["upper_flows"] = check_upper_flows(cx, fx)
    check_lexical_options(cx, fx)
    for kx, n in total.items():
        cx.count("R-CASE", kx, n)
    cx.analysed["R-CASE"] = total
    cx.assume("`lexical` and `u8::from_str_radix` treat hex digits / exponent markers case-insensitively (library contract)")


def phf_entries(body):
    """(key, variant) pairs of a phf::Map static initialiser."""
    out = []
    for node, par in F.walk(body["hir"]):
        if node.get("k") == "Tup" and len(node["elems"]) == 2:
            l = F.lit_of(node["elems"][0])
            c = F.const_of(node["elems"][1])
            if l and l[0] == "str" and c:
                out.append((l[1], c))
    return out


def check_expr_letter(cx, fname, node, par, lt, v):
    """A letter literal in expression position (not inside an array literal)."""
    lit = v if lt == "char" else chr(v)
    # find the comparison it takes part in
    cmp_node = None
    for p in reversed(par):
        k = p.get("k")
        if k in ("AddrOf", "DropTemps", "Use"):
            continue
        if k == "Binary" and p.get("op") in ("Eq", "Ne"):
            cmp_node = p
        elif k == "MethodCall" and p.get("name") in CMP_METHODS:
            cmp_node = p
        elif k == "Call":
            cmp_node = p
        break
    if cmp_node is None:
        # not a comparison-like context (e.g. a default value): not constrained, but recorded
        cx.ob("R-CASE", "%s|expr-nocmp|%s" % (fname, lit), True, F.file_line(F.site(node)),
              "letter literal %r not used in a comparison context" % lit, nontrivial=False)
        return
    idx = par.index(cmp_node)
    ops = or_chain(cmp_node, par[:idx])
    want = cj(replace_lit(cmp_node, node, lt, swap(lt, v)))
    ok = any(cj(o) == want for o in ops if o is not cmp_node) or (
        cmp_node.get("k") == "MethodCall" and cmp_node.get("name") == "eq_ignore_ascii_case")
    cx.ob("R-CASE", "%s|cmp|%s" % (fname, lit), ok, F.file_line(F.site(node)),
          ("comparison with %r has a sibling `||` operand comparing the same value with %r" % (lit, lit.swapcase())) if ok
          else ("comparison with letter %r has no `||` sibling for %r; witness: use the other case" % (lit, lit.swapcase())))


def replace_lit(tree, target, lt, newv):
    if tree is target:
        d = dict(tree)
        d["v"] = newv
        return d
    if isinstance(tree, dict):
        return {k: replace_lit(v, target, lt, newv) for k, v in tree.items()}
    if isinstance(tree, list):
        return [replace_lit(x, target, lt, newv) for x in tree]
    return tree


def check_expr_str(cx, fname, node, par, v, stats):
    """&str literal with ASCII letters in expression position, outside macro expansions."""
    cmp_node = None
    for p in reversed(par):
        k = p.get("k")
        if k in ("AddrOf", "DropTemps", "Use"):
            continue
        if k == "Binary" and p.get("op") in ("Eq", "Ne"):
            cmp_node = p
        elif k == "MethodCall" and p.get("name") in CMP_METHODS:
            cmp_node = p
        break
    if cmp_node is None:
        return
    stats["str_sets"] += 1
    idx = par.index(cmp_node)
    ops = or_chain(cmp_node, par[:idx])
    have = {cj(o) for o in ops}
    ok = True
    missing = None
    for i, ch in enumerate(v):
        if ch.isascii() and ch.isalpha():
            nv = v[:i] + ch.swapcase() + v[i + 1:]
            if cj(replace_lit(cmp_node, node, "str", nv)) not in have:
                ok = False
                missing = nv
                break
    cx.ob("R-CASE", "%s|strcmp|%s" % (fname, v), ok, F.file_line(F.site(node)),
          ("string comparison %r has `||` siblings for every single-letter case swap" % v) if ok
          else ("string comparison with %r lacks the case variant %r" % (v, missing)))


def flows_from_upper(fx, body, expr, depth=0):
    """Does the &str value of `expr` (in `body`) come from a byte buffer written only with
    to_ascii_uppercase results, or from str::to_ascii_uppercase?  Returns (bool, reason)."""
    e = F.strip(expr)
    if e is None or depth > 6:
        return False, "too deep"
    k = e.get("k")
    if k == "MethodCall":
        name = e.get("name")
        if name == "to_ascii_uppercase":
            return True, "to_ascii_uppercase()"
        if name in ("as_str", "as_ref", "deref", "borrow"):
            return flows_from_upper(fx, body, e["recv"], depth + 1)
    if k == "Call":
        cal = F.callee(e)
        if cal.endswith("from_utf8_unchecked") or cal.endswith("from_utf8"):
            # argument: &buf[..len]
            a = F.strip(e["args"][0])
            while a.get("k") in ("Index", "AddrOf", "MethodCall") and a.get("k") != "Path":
                a = F.strip(a.get("base") or a.get("e") or a.get("recv"))
            if a.get("k") == "Path" and "local" in a["res"]:
                return buffer_written_upper(body, a["res"]["local"])
            return False, "from_utf8 argument is not a local buffer"
    if k == "Path" and "local" in e.get("res", {}):
        lid = e["res"]["local"]
        inits = local_inits(body, lid)
        if not inits:
            return False, "local %s has no initialiser" % e["res"].get("name")
        for i in inits:
            ok, why = flows_from_upper(fx, body, i, depth + 1)
            if not ok:
                return False, why
        return True, "all initialisers upper-cased"
    if k == "BlockExpr":
        # unsafe { from_utf8_unchecked(..) }
        b = e["b"]
        if b.get("expr") is not None:
            return flows_from_upper(fx, body, b["expr"], depth + 1)
    return False, "value of kind %s is not an upper-cased buffer" % k


def local_inits(body, lid):
    out = []
    for node, par in F.walk(body["hir"]):
        if node.get("k") == "Let" and node.get("pat", {}).get("k") == "Bind" and node["pat"]["id"] == lid and node.get("init"):
            out.append(node["init"])
        if node.get("k") == "Assign":
            l = F.strip(node["l"])
            if l.get("k") == "Path" and l["res"].get("local") == lid:
                out.append(node["r"])
    return out


def buffer_written_upper(body, lid):
    """Every element store into local array `lid` stores a to_ascii_uppercase() result; init is zeros."""
    stores = 0
    aliased = False
    deref_stores = []

    def is_upper(r):
        r = F.strip(r)
        return (r.get("k") == "MethodCall" and r.get("name") == "to_ascii_uppercase") or \
            (r.get("k") == "Call" and F.callee(r).endswith("to_ascii_uppercase"))

    def rooted_at_buf(n):
        n = F.strip(n)
        while n.get("k") in ("MethodCall", "Index", "AddrOf", "Field", "Unary"):
            n = F.strip(n.get("recv") or n.get("base") or n.get("e"))
        return n.get("k") == "Path" and n.get("res", {}).get("local") == lid
    for node, par in F.walk(body["hir"]):
        if node.get("k") == "MethodCall" and node.get("name") in ("iter_mut", "as_mut_slice", "as_mut", "chunks_mut", "split_at_mut") and rooted_at_buf(node["recv"]):
            aliased = True      # elements are written through the items of this iterator / slice
        if node.get("k") == "MethodCall" and node.get("name") in ("copy_from_slice", "clone_from_slice", "fill", "fill_with", "swap", "reverse", "rotate_left") and rooted_at_buf(node["recv"]):
            return False, "buffer written by %s() (not an upper-casing store)" % node["name"]
        if node.get("k") == "Assign":
            l = F.strip(node["l"])
            if l.get("k") == "Unary" and l.get("op") == "Deref":
                deref_stores.append(node)
        if node.get("k") == "Assign":
            l = F.strip(node["l"])
            if l.get("k") == "Index":
                base = F.strip(l["base"])
                if base.get("k") == "Path" and base["res"].get("local") == lid:
                    stores += 1
                    r = F.strip(node["r"])
                    if not (r.get("k") == "MethodCall" and r.get("name") == "to_ascii_uppercase"):
                        return False, "buffer element store is not a to_ascii_uppercase() result (%s)" % F.file_line(F.site(node))
        if node.get("k") in ("MethodCall", "Call"):
            # the buffer handed out mutably to someone else?
            for a in F.call_args(node):
                if a.get("k") == "AddrOf" and a.get("mut"):
                    t = F.strip(a)
                    if t.get("k") == "Path" and t["res"].get("local") == lid:
                        return False, "buffer passed by &mut to %s" % F.callee(node)
    if aliased:
        # the buffer is filled through `for dst in buf.iter_mut()...`: every `*x = v` in this function must upper-case
        for node in deref_stores:
            if not is_upper(node["r"]):
                return False, "store through a mutable alias of the buffer is not a to_ascii_uppercase() result (%s)" % F.file_line(F.site(node))
        stores += len(deref_stores)
    if stores == 0:
        return False, "no store into the buffer found"
    return True, "%d store(s), all to_ascii_uppercase()" % stores


def check_str_pattern(cx, fx, fname, body, m, lit, arm):
    """A &str pattern with letters: literal upper-case and scrutinee upper-cased."""
    ok_u = lit == lit.upper()
    ok_f, why = flows_from_upper(fx, body, m["scrut"])
    ok = ok_u and ok_f
    cx.ob("R-UPPER-FLOW", "%s|strpat|%s" % (fname, lit), ok, F.file_line(arm.get("sp", "?")),
          ("&str pattern %r is upper-case and the scrutinee is upper-cased (%s)" % (lit, why)) if ok
          else ("&str pattern %r: %s" % (lit, "literal is not upper-case" if not ok_u else "scrutinee not provably upper-cased: " + why)))


def check_upper_flows(cx, fx):
    """Arguments of parse_keyword / parse_macro_keyword (phf lookups) are upper-cased buffers."""
    n = 0
    for fname, b in fx.bodies.items():
        if fx.is_derive(fname):
            continue
        for node, par in F.walk(b["hir"]):
            if node.get("k") == "Call" and F.callee(node) in ("token_type::parse_keyword", "token_type::parse_macro_keyword"):
                n += 1
                ok, why = flows_from_upper(fx, b, node["args"][0])
                cx.ob("R-UPPER-FLOW", "%s|lookup|%s" % (fname, F.callee(node).split("::")[-1]), ok, F.file_line(F.site(node)),
                      "keyword lookup argument: " + why)
    # the lookup functions themselves must be plain map.get(key) without further case handling
    for fn in ("token_type::parse_keyword", "token_type::parse_macro_keyword"):
        b = fx.fn(fn)
        cx.ob("R-UPPER-FLOW", "lookupfn|%s" % fn, b is not None, b["span"] if b else "", "lookup function present")
    return n


def check_lexical_options(cx, fx):
    """No case_sensitive_* option on the NumberFormatBuilder consts."""
    found = 0
    for cname in ("numeric::SAS_DECIMAL", "numeric::SAS_HEX"):
        b = fx.fn(cname)
        if b is None:
            cx.violation("R-CASE", "lexical|%s|missing" % cname, "", "number format const %s not found" % cname)
            continue
        found += 1
        bad = []
        for node, par in F.walk(b["hir"]):
            if node.get("k") == "MethodCall" and "case_sensitive" in (node.get("name") or ""):
                a = F.lit_of(node["args"][0]) if node["args"] else None
                if not (a and a[1] is False):
                    bad.append(node.get("name"))
        cx.ob("R-CASE", "lexical|%s" % cname, not bad, b["span"],
              "no case_sensitive_* option enabled on %s" % cname if not bad else "case-sensitive option(s) %s enabled" % bad)
    cx.count("R-CASE", "lexical_formats", found)
