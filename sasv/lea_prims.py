"""Leaf primitives of LEA: Cursor, WorkTokenizedBuffer, std containers/Option/Result, char predicates."""
from . import facts as F
from . import chars as C
from .lea import (AV, Const, Enum, Tup, Term, LA, Obj, Closure, FnRef, LRef, SLen, Out, UNIT, TRUE, FALSE, NONE,
                  LEXER, cbool, some, Cursor, canon_path)

PRIMS = {}
SUFFIX_PRIMS = []


def prim(*names):
    def deco(fn):
        for n in names:
            PRIMS[n] = fn
        return fn
    return deco


def lookup(callee):
    h = PRIMS.get(callee)
    if h is not None:
        return h
    for suf, fn in SUFFIX_PRIMS:
        if callee.endswith(suf):
            return fn
    return None


def val(v, st):
    return [Out("val", v, st)]


def jump(st, cur):
    old = cur.pos
    st.fields["_jump"] = st.fields.get("_jump", 0) + 1
    cur.pos = st.fields["_jump"] * 100000
    cur.exact = False
    if cur.id == "main":
        mc = dict(st.fields.get("_minc", {}))
        mc[cur.pos] = mc.get(old, 0)
        st.fields["_minc"] = mc


def stream(I, st, cid):
    return I.stream_of(st, cid)


def la_at(I, st, cid, off=0):
    c = st.cursors[cid]
    return LA(stream(I, st, cid), c.pos, off)


def eof_known(st, strm, pos):
    """True: definitely EOF at pos; False: definitely a char; None unknown."""
    cf = st.cs.get(("LA", strm, pos))
    if cf is not None and not cf.possible("\0"):
        # a look-ahead (peek_next) already showed a real character here
        return False
    m = st.fields.get("_eof", {})
    for (s, p), v in m.items():
        if s != strm:
            continue
        if v is False and p >= pos:
            return False
        if v is True and p <= pos:
            return True
    return None


def set_eof(st, strm, pos, v):
    m = dict(st.fields.get("_eof", {}))
    m[(strm, pos)] = v
    st.fields["_eof"] = m


def cursor_of(a):
    return a.id if isinstance(a, Obj) and a.kind == "cursor" else None


def is_main_stream_at_main(I, st, cid):
    return cid == "main"


# ---- Cursor ---------------------------------------------------------------

@prim("cursor::Cursor::peek")
def c_peek(I, callee, args, st, n, fidx):
    cid = cursor_of(args[0])
    if cid is None or cid not in st.cursors:
        return val(Term("peek?", (), n.get("ty")), st)
    c = st.cursors[cid]
    strm = stream(I, st, cid)
    k = eof_known(st, strm, c.pos)
    la = LA(strm, c.pos, 0)
    if k is False:
        return val(some(la), st)
    if k is True:
        return val(NONE, st)
    s2 = st.clone()
    set_eof(s2, strm, c.pos, False)
    set_eof(st, strm, c.pos, True)
    st.conds.append("eof@%s:%d" % (strm, c.pos))
    return [Out("val", some(la), s2), Out("val", NONE, st)]


@prim("cursor::Cursor::peek_next")
def c_peek_next(I, callee, args, st, n, fidx):
    cid = cursor_of(args[0])
    if cid is None or cid not in st.cursors:
        return val(Term("peek_next?", (), "char"), st)
    c = st.cursors[cid]
    return val(LA(stream(I, st, cid), c.pos, 1), st)


def do_advance(I, st, cid, n, via):
    c = st.cursors[cid]
    strm = stream(I, st, cid)
    la = LA(strm, c.pos, 0)
    kind = "consume" if cid == "main" else "la_consume"
    I.emit(st, kind, n, cursor=cid, count=Const("int", 1), chars=[la], via=via, pos=c.pos, facts=st.cf(la))
    c.pos += 1
    if cid == "main":
        mc = dict(st.fields.get("_minc", {}))
        mc[c.pos] = mc.get(c.pos - 1, 0) + 1
        st.fields["_minc"] = mc
    return la


@prim("cursor::Cursor::advance")
def c_advance(I, callee, args, st, n, fidx):
    cid = cursor_of(args[0])
    if cid is None or cid not in st.cursors:
        return val(Term("advance?", (), n.get("ty")), st)
    c = st.cursors[cid]
    strm = stream(I, st, cid)
    k = eof_known(st, strm, c.pos)
    outs = []
    if k is None:
        s_eof = st.clone()
        set_eof(s_eof, strm, c.pos, True)
        s_eof.conds.append("eof@%s:%d" % (strm, c.pos))
        I.emit(s_eof, "advance_at_eof", n, cursor=cid)
        outs.append(Out("val", NONE, s_eof))
        set_eof(st, strm, c.pos, False)
    elif k is True:
        I.emit(st, "advance_at_eof", n, cursor=cid)
        return val(NONE, st)
    la = do_advance(I, st, cid, n, "advance")
    outs.insert(0, Out("val", some(la), st))
    return outs


@prim("cursor::Cursor::advance_by")
def c_advance_by(I, callee, args, st, n, fidx):
    cid = cursor_of(args[0])
    cnt = args[1]
    if cid is None or cid not in st.cursors:
        return val(UNIT, st)
    c = st.cursors[cid]
    strm = stream(I, st, cid)
    kind = "consume" if cid == "main" else "la_consume"
    if isinstance(cnt, Const) and cnt.t == "int" and 0 < cnt.v <= 8:
        chars = []
        for i in range(cnt.v):
            if eof_known(st, strm, c.pos + i) is True:
                break   # advance_by stops at end of input
            chars.append(LA(strm, c.pos, i))
        I.emit(st, kind, n, cursor=cid, count=cnt, chars=chars, via="advance_by", pos=c.pos,
               facts=[st.cf(x) for x in chars])
        if cid == "main":
            mc = dict(st.fields.get("_minc", {}))
            sure = sum(1 for x in chars if eof_known(st, strm, x.abspos) is False)
            mc[c.pos + cnt.v] = mc.get(c.pos, 0) + sure
            st.fields["_minc"] = mc
        c.pos += cnt.v
    else:
        I.emit(st, kind, n, cursor=cid, count=cnt, chars=None, via="advance_by", pos=c.pos, facts=None,
               bfacts=dict(st.bfacts))
        tgt = _advance_target(cnt, strm, c.pos)
        if tgt is not None:
            # `advance_by(dist(a, b) + k)` from the position k characters before a: the cursor lands exactly on
            # the position b that a look-ahead cursor of the same stream reached (same label, not a fresh one)
            old = c.pos
            c.pos = tgt
            c.exact = False
            if cid == "main":
                mc = dict(st.fields.get("_minc", {}))
                mc[tgt] = max(mc.get(tgt, 0), mc.get(old, 0))
                st.fields["_minc"] = mc
        else:
            jump(st, c)
    return val(UNIT, st)


def _advance_target(cnt, strm, pos):
    """b when cnt == char_offset(strm, b) - char_offset(strm, a) + k with a == pos + k (a, pos in one exact block)."""
    k = 0
    v = cnt
    for _ in range(6):
        if isinstance(v, Term) and (v.op.startswith("cast:") or v.op == "into") and v.args:
            v = v.args[0]
        elif isinstance(v, Term) and v.op == "bin:Add" and len(v.args) == 2 and isinstance(v.args[1], Const) and v.args[1].t == "int":
            k += v.args[1].v
            v = v.args[0]
        elif isinstance(v, Term) and v.op == "bin:Add" and len(v.args) == 2 and isinstance(v.args[0], Const) and v.args[0].t == "int":
            k += v.args[0].v
            v = v.args[1]
        else:
            break
    if not (isinstance(v, Term) and v.op == "bin:Sub" and len(v.args) == 2):
        return None
    hi, lo = v.args
    if not all(isinstance(x, Term) and x.op == "char_offset" and len(x.args) == 2 for x in (hi, lo)):
        return None
    if hi.args[0].v != strm or lo.args[0].v != strm:
        return None
    a, b = lo.args[1].v, hi.args[1].v
    if k < 0 or a != pos + k or a // 100000 != pos // 100000 or b < a:
        return None
    return b


@prim("cursor::Cursor::as_str")
def c_as_str(I, callee, args, st, n, fidx):
    cid = cursor_of(args[0])
    if cid is None or cid not in st.cursors:
        return val(Term("as_str?", (), "&str"), st)
    c = st.cursors[cid]
    return val(Term("as_str", (Const("str", stream(I, st, cid)), Const("int", c.pos)), "&str"), st)


@prim("cursor::Cursor::remaining_len")
def c_remaining_len(I, callee, args, st, n, fidx):
    cid = cursor_of(args[0])
    if cid is None or cid not in st.cursors:
        return val(Term("remaining_len?", (), "u32"), st)
    c = st.cursors[cid]
    return val(Term("remaining_len", (Const("str", stream(I, st, cid)), Const("int", c.pos)), "u32"), st)


@prim("cursor::Cursor::char_offset")
def c_char_offset(I, callee, args, st, n, fidx):
    cid = cursor_of(args[0])
    if cid is None or cid not in st.cursors:
        return val(Term("char_offset?", (), "u32"), st)
    c = st.cursors[cid]
    return val(Term("char_offset", (Const("str", stream(I, st, cid)), Const("int", c.pos)), "u32"), st)


@prim("cursor::Cursor::prev_char")
def c_prev_char(I, callee, args, st, n, fidx):
    cid = cursor_of(args[0])
    if cid is None or cid not in st.cursors:
        return val(Term("prev_char?", (), "char"), st)
    c = st.cursors[cid]
    if c.pos > 0:
        return val(LA(stream(I, st, cid), c.pos - 1, 0), st)
    return val(Term("prev_char", (), "char"), st)


def clone_cursor(I, st, cid, n):
    nid = "la%d" % st.next_cur
    st.next_cur += 1
    src = st.cursors[cid]
    st.cursors[nid] = Cursor(nid, src.pos, src.exact, origin=(stream(I, st, cid), src.pos))
    sm = dict(st.fields.get("_stream", {}))
    sm[nid] = stream(I, st, cid)
    st.fields["_stream"] = sm
    return Obj("cursor", nid)


@prim("cursor::Cursor::chars")
def c_chars(I, callee, args, st, n, fidx):
    cid = cursor_of(args[0])
    if cid is None or cid not in st.cursors:
        return val(Term("chars?", (), n.get("ty")), st)
    return val(clone_cursor(I, st, cid, n), st)


@prim("cursor::Cursor::new")
def c_new(I, callee, args, st, n, fidx):
    nid = "new%d" % st.next_cur
    st.next_cur += 1
    st.cursors[nid] = Cursor(nid, 0, True)
    return val(Obj("cursor", nid), st)


@prim("std::clone::Clone::clone")
def p_clone(I, callee, args, st, n, fidx):
    a = args[0]
    cid = cursor_of(a)
    if cid is not None and cid in st.cursors:
        return val(clone_cursor(I, st, cid, n), st)
    if isinstance(a, LRef):
        a = I.deref(a, st)
    if isinstance(a, Obj) and a.kind == "mode_stack":
        return val(Term("mode_stack_clone", (Const("int", st.base + len(st.stack)),)), st)
    return val(a, st)


@prim("std::iter::Iterator::next")
def it_next(I, callee, args, st, n, fidx):
    a = args[0]
    if isinstance(a, LRef):
        a = I.deref(a, st)
    cid = cursor_of(a)
    if cid is not None and cid in st.cursors:
        return c_advance(I, callee, [a], st, n, fidx)
    if isinstance(a, Enum) and a.path == "[iter_items]":
        # iterator over a known, finite list of values (array literal): exact, no fork
        if a.args:
            if isinstance(args[0], LRef):
                I.store(args[0], Enum("[iter_items]", a.args[1:]), st, n)
            return val(some(a.args[0]), st)
        return val(NONE, st)
    if isinstance(a, Term) and a.op in ("iter_nonempty", "iter_rest"):
        st.fields["_item"] = st.fields.get("_item", 0) + 1
        item = Term("item_of", (a.args[0], Const("int", st.fields["_item"])), None)
        if a.op == "iter_nonempty":
            if isinstance(args[0], LRef):
                I.store(args[0], Term("iter_rest", a.args, a.ty), st, n)
            return val(some(item), st)
        s2 = st.clone()
        return [Out("val", some(item), st), Out("val", NONE, s2)]
    v = st.sym("next", n.get("ty"))
    return val(v, st)


# ---- mode stack -------------------------------------------------------------

def is_obj(a, kind):
    return isinstance(a, Obj) and a.kind == kind


def below_certain(st, idx):
    """Is the unknown slot at SLen index idx guaranteed to exist?  The first slot below the entry
    top exists whenever the entry top is not `Default` (Default is the stack bottom)."""
    return idx >= st.fields.get("_certain_floor", 0)


@prim("std::vec::Vec::push")
def v_push(I, callee, args, st, n, fidx):
    a = args[0]
    if is_obj(a, "mode_stack"):
        st.stack.append(args[1])
        I.emit(st, "push", n, mode=args[1], depth=st.base + len(st.stack))
        return val(UNIT, st)
    if is_obj(a, "errors"):
        I.emit(st, "error", n, info=args[1], err=I.project(args[1], "error_kind"), ckpt=st.ckpt)
        return val(UNIT, st)
    if isinstance(a, LRef):
        return val(UNIT, st)
    return val(UNIT, st)


@prim("std::vec::Vec::extend", "std::iter::Extend::extend")
def v_extend(I, callee, args, st, n, fidx):
    a = args[0]
    if isinstance(a, LRef):
        a = I.deref(a, st)
    if is_obj(a, "mode_stack"):
        items = args[1]
        if isinstance(items, Enum) and items.path in ("[array]", "[iter_items]"):
            for m in items.args:
                st.stack.append(m)
                I.emit(st, "push", n, mode=m, depth=st.base + len(st.stack))
            return val(UNIT, st)
        st.stack_ok = False
        I.note_unanalysed("mode_stack.extend with an iterable LEA cannot enumerate", n)
        return val(UNIT, st)
    if is_obj(a, "errors"):
        I.note_unanalysed("errors.extend", n)
    return val(UNIT, st)


@prim("std::vec::Vec::pop")
def v_pop(I, callee, args, st, n, fidx):
    a = args[0]
    if is_obj(a, "mode_stack"):
        if st.stack:
            m = st.stack.pop()
            I.emit(st, "pop", n, mode=m, known=True, depth=st.base + len(st.stack), pos=st.cursors["main"].pos)
            return val(some(m), st)
        idx = st.base - 1
        m = I.stack_slot(st, idx)
        certain = below_certain(st, idx) or (m.key() in st.vfacts and st.vfacts[m.key()][0])
        outs = []
        if not certain:
            s2 = st.clone()
            I.emit(s2, "pop_empty", n, index=idx)
            outs.append(Out("val", NONE, s2))
        st.base -= 1
        st.below_pops += 1
        ident = st.vfacts.get(m.key())
        I.emit(st, "pop", n, mode=m, known=False, depth=st.base + len(st.stack), certain=bool(certain),
               identified=sorted(ident[0]) if ident and ident[0] else None)
        outs.insert(0, Out("val", some(m), st))
        return outs
    if isinstance(a, LRef):
        return val(st.sym("pop", n.get("ty")), st)
    return val(st.sym("pop", n.get("ty")), st)


def top_index(st):
    return st.base + len(st.stack) - 1


@prim("core::slice::last", "core::slice::last_mut")
def v_last(I, callee, args, st, n, fidx):
    a = args[0]
    if is_obj(a, "mode_stack"):
        idx = top_index(st)
        mut = callee.endswith("last_mut")
        if st.stack:
            return val(some(LRef(("stack", idx)) if mut else st.stack[-1]), st)
        m = I.stack_slot(st, idx)
        certain = below_certain(st, idx) or (m.key() in st.vfacts and st.vfacts[m.key()][0])
        outs = [Out("val", some(LRef(("stack", idx)) if mut else m), st)]
        if not certain:
            s2 = st.clone()
            I.emit(s2, "stack_empty_seen", n, index=idx)
            outs.append(Out("val", NONE, s2))
        return outs
    return val(st.sym("last", n.get("ty")), st)


@prim("std::vec::Vec::len")
def v_len(I, callee, args, st, n, fidx):
    a = args[0]
    if is_obj(a, "mode_stack"):
        return val(SLen(st.base + len(st.stack)), st)
    return val(Term("len", (a,), "usize"), st)


@prim("std::vec::Vec::truncate")
def v_truncate(I, callee, args, st, n, fidx):
    a = args[0]
    if is_obj(a, "mode_stack"):
        to = args[1]
        if isinstance(to, SLen):
            d = to.d
            cur = st.base + len(st.stack)
            removed = []
            if d <= cur:
                keep = d - st.base
                if keep >= 0:
                    removed = st.stack[keep:]
                    st.stack = st.stack[:keep]
                else:
                    removed = list(st.stack)
                    st.stack = []
                    st.below_pops += -keep
                    st.base = d
            I.emit(st, "stack_truncate", n, to=d, removed=removed, noop=(d >= cur))
        else:
            st.stack_ok = False
            I.emit(st, "stack_truncate", n, to=None, removed=None, noop=False)
        return val(UNIT, st)
    return val(UNIT, st)


@prim("std::vec::Vec::insert")
def v_insert(I, callee, args, st, n, fidx):
    a = args[0]
    if is_obj(a, "mode_stack"):
        at = args[1]
        if isinstance(at, SLen) and 0 <= at.d - st.base <= len(st.stack):
            st.stack.insert(at.d - st.base, args[2])
            I.emit(st, "stack_insert", n, at=at.d, mode=args[2], from_top=len(st.stack) - 1 - (at.d - st.base))
        else:
            st.stack_ok = False
            I.emit(st, "stack_insert", n, at=None, mode=args[2], from_top=None)
        return val(UNIT, st)
    return val(UNIT, st)


@prim("core::slice::get_mut", "core::slice::get")
def v_get(I, callee, args, st, n, fidx):
    a = args[0]
    if is_obj(a, "mode_stack"):
        at = args[1]
        mut = callee.endswith("get_mut")
        if isinstance(at, SLen):
            i = at.d - st.base
            if 0 <= i < len(st.stack):
                return val(some(LRef(("stack", at.d)) if mut else st.stack[i]), st)
            if i < 0:
                s2 = st.clone()
                return [Out("val", some(LRef(("stack", at.d)) if mut else I.stack_slot(st, at.d)), st), Out("val", NONE, s2)]
            return val(NONE, st)
        s2 = st.clone()
        return [Out("val", some(st.sym("slot", None)), st), Out("val", NONE, s2)]
    if is_obj(a, "source") or (isinstance(a, Term) and a.ty == "&str"):
        return str_get(I, callee, args, st, n, fidx)
    return val(Term("get", tuple(args), n.get("ty")), st)


@prim("std::vec::Vec::is_empty", "core::slice::is_empty")
def v_is_empty(I, callee, args, st, n, fidx):
    a = args[0]
    if isinstance(a, LRef):
        a = I.deref(a, st)
    if is_obj(a, "mode_stack"):
        if st.stack:
            return val(FALSE, st)
    if isinstance(a, Term) and a.op == "resolve_ops":
        return val(FALSE, st)
    return val(Term("is_empty", (a,), "bool"), st)


# ---- checkpoint option field --------------------------------------------------

@prim("std::option::Option::is_some", "std::option::Option::is_none")
def o_is_some(I, callee, args, st, n, fidx):
    a = args[0]
    want_some = callee.endswith("is_some")
    if is_obj(a, "checkpoint"):
        I.emit(st, "ckpt_test", n, state=st.ckpt)
        if st.ckpt == "some":
            return val(cbool(want_some), st)
        if st.ckpt == "none":
            return val(cbool(not want_some), st)
        s2 = st.clone()
        s2.ckpt = "some"
        s2.ckpt_val = Term("ckpt@entry")
        st.ckpt = "none"
        return [Out("val", cbool(want_some), s2), Out("val", cbool(not want_some), st)]
    outs = []
    for is_s, payload, s in opt_cases(I, a, st, fidx):
        outs.append(Out("val", cbool(is_s == want_some), s))
    return outs


@prim("std::option::Option::take")
def o_take(I, callee, args, st, n, fidx):
    a = args[0]
    if is_obj(a, "checkpoint"):
        def take_some(s):
            v = s.ckpt_val if s.ckpt_val is not None else Term("ckpt@entry")
            I.emit(s, "ckpt", n, op="take", prior="some", value=v)
            s.ckpt, s.ckpt_val = "none", None
            return Out("val", some(v), s)

        def take_none(s):
            I.emit(s, "ckpt", n, op="take", prior="none", value=None)
            s.ckpt, s.ckpt_val = "none", None
            return Out("val", NONE, s)
        if st.ckpt == "some":
            return [take_some(st)]
        if st.ckpt == "none":
            return [take_none(st)]
        s2 = st.clone()
        return [take_some(s2), take_none(st)]
    if isinstance(a, LRef):
        v = I.deref(a, st)
        I.store(a, NONE, st, n)
        return val(v, st)
    return val(st.sym("take", n.get("ty")), st)


# ---- Option / Result combinators ------------------------------------------------

def opt_cases(I, a, st, fidx):
    """[(is_some, payload, state)] for an Option-like AV."""
    if isinstance(a, LRef):
        a = I.deref(a, st)
    if isinstance(a, Enum):
        if a.variant in ("Some", "Ok"):
            return [(True, a.args[0] if a.args else UNIT, st)]
        if a.variant in ("None",):
            return [(False, None, st)]
        if a.variant == "Err":
            return [(False, a.args[0] if a.args else UNIT, st)]
    key = a.key()
    inc, exc = st.vfacts.get(key, (None, frozenset()))
    payload = Term("Some.0", (a,), None)
    if isinstance(a, Term) and a.op == "optmark":
        from .lea import optmark_payload
        payload = optmark_payload(a)
    res = []
    can_some = (inc is None or "Some" in inc or "Ok" in inc) and "Some" not in exc
    can_none = (inc is None or "None" in inc or "Err" in inc) and "None" not in exc
    if can_some and can_none:
        s2 = st.clone()
        s2.vfacts[key] = (frozenset(["Some"]), frozenset())
        s2.conds.append("%r is Some" % (a,))
        st.vfacts[key] = (frozenset(["None"]), frozenset(["Some"]))
        st.conds.append("%r is None" % (a,))
        return [(True, payload, s2), (False, Term("Err.0", (a,)), st)]
    if can_some:
        return [(True, payload, st)]
    return [(False, Term("Err.0", (a,)), st)]


def apply_all(I, f, argv, st, n, fidx):
    return I.apply(f, argv, st, n, fidx)


@prim("std::option::Option::map_or")
def o_map_or(I, callee, args, st, n, fidx):
    a, d, f = args
    outs = []
    for is_s, p, s in opt_cases(I, a, st, fidx):
        if is_s:
            outs.extend(apply_all(I, f, [p], s, n, fidx))
        else:
            outs.append(Out("val", d, s))
    return outs


@prim("std::option::Option::map_or_else")
def o_map_or_else(I, callee, args, st, n, fidx):
    a, d, f = args
    outs = []
    for is_s, p, s in opt_cases(I, a, st, fidx):
        if is_s:
            outs.extend(apply_all(I, f, [p], s, n, fidx))
        else:
            outs.extend(apply_all(I, d, [], s, n, fidx))
    return outs


@prim("std::option::Option::map", "std::result::Result::map")
def o_map(I, callee, args, st, n, fidx):
    a, f = args
    outs = []
    is_res = "Result" in callee
    for is_s, p, s in opt_cases(I, a, st, fidx):
        if is_s:
            for o in apply_all(I, f, [p], s, n, fidx):
                outs.append(Out("val", Enum("Ok" if is_res else "Some", [o.val]), o.st) if o.kind == "val" else o)
        else:
            outs.append(Out("val", Enum("Err", [p]) if is_res else NONE, s))
    return outs


@prim("std::result::Result::map_err")
def r_map_err(I, callee, args, st, n, fidx):
    a, f = args
    outs = []
    for is_s, p, s in opt_cases(I, a, st, fidx):
        if is_s:
            outs.append(Out("val", Enum("Ok", [p]), s))
        else:
            for o in apply_all(I, f, [p], s, n, fidx):
                outs.append(Out("val", Enum("Err", [o.val]), o.st) if o.kind == "val" else o)
    return outs


@prim("std::option::Option::is_some_and")
def o_is_some_and(I, callee, args, st, n, fidx):
    a, f = args
    outs = []
    for is_s, p, s in opt_cases(I, a, st, fidx):
        if is_s:
            outs.extend(apply_all(I, f, [p], s, n, fidx))
        else:
            outs.append(Out("val", FALSE, s))
    return outs


@prim("std::option::Option::unwrap_or", "std::result::Result::unwrap_or")
def o_unwrap_or(I, callee, args, st, n, fidx):
    a, d = args
    return [Out("val", p if is_s else d, s) for is_s, p, s in opt_cases(I, a, st, fidx)]


@prim("std::option::Option::unwrap_or_default")
def o_unwrap_or_default(I, callee, args, st, n, fidx):
    a = args[0]
    return [Out("val", p if is_s else Term("default", (), n.get("ty")), s) for is_s, p, s in opt_cases(I, a, st, fidx)]


@prim("std::option::Option::unwrap_or_else", "std::result::Result::unwrap_or_else")
def o_unwrap_or_else(I, callee, args, st, n, fidx):
    a, f = args
    outs = []
    is_res = "Result" in callee
    for is_s, p, s in opt_cases(I, a, st, fidx):
        if is_s:
            outs.append(Out("val", p, s))
        else:
            outs.extend(apply_all(I, f, [p] if is_res else [], s, n, fidx))
    return outs


@prim("std::option::Option::or_else")
def o_or_else(I, callee, args, st, n, fidx):
    a, f = args
    outs = []
    for is_s, p, s in opt_cases(I, a, st, fidx):
        if is_s:
            outs.append(Out("val", some(p), s))
        else:
            outs.extend(apply_all(I, f, [], s, n, fidx))
    return outs


@prim("std::option::Option::and_then", "std::result::Result::and_then")
def o_and_then(I, callee, args, st, n, fidx):
    a, f = args
    outs = []
    is_res = "Result" in callee
    for is_s, p, s in opt_cases(I, a, st, fidx):
        if is_s:
            outs.extend(apply_all(I, f, [p], s, n, fidx))
        else:
            outs.append(Out("val", Enum("Err", [p]) if is_res else NONE, s))
    return outs


@prim("std::option::Option::ok_or")
def o_ok_or(I, callee, args, st, n, fidx):
    a, e = args
    return [Out("val", Enum("Ok", [p]) if is_s else Enum("Err", [e]), s) for is_s, p, s in opt_cases(I, a, st, fidx)]


@prim("core::bool::then_some", "std::bool::then_some")
def b_then_some(I, callee, args, st, n, fidx):
    return [Out("val", some(args[1]) if ok else NONE, s) for ok, s in I.test_bool(args[0], st)]


@prim("core::bool::then", "std::bool::then")
def b_then(I, callee, args, st, n, fidx):
    outs = []
    for ok, s in I.test_bool(args[0], st):
        if ok:
            for o in apply_all(I, args[1], [], s, n, fidx):
                outs.append(Out("val", some(o.val), o.st) if o.kind == "val" else o)
        else:
            outs.append(Out("val", NONE, s))
    return outs


@prim("std::option::Option::filter")
def o_filter(I, callee, args, st, n, fidx):
    a, f = args
    outs = []
    for is_s, p, s in opt_cases(I, a, st, fidx):
        if not is_s:
            outs.append(Out("val", NONE, s))
            continue
        for o in apply_all(I, f, [p], s, n, fidx):
            if o.kind != "val":
                outs.append(o)
                continue
            for ok, s2 in I.test_bool(o.val, o.st):
                outs.append(Out("val", some(p) if ok else NONE, s2))
    return outs


@prim("std::option::Option::flatten")
def o_flatten(I, callee, args, st, n, fidx):
    outs = []
    for is_s, p, s in opt_cases(I, args[0], st, fidx):
        if not is_s:
            outs.append(Out("val", NONE, s))
            continue
        for is2, p2, s2 in opt_cases(I, p, s, fidx):
            outs.append(Out("val", some(p2) if is2 else NONE, s2))
    return outs


@prim("std::option::Option::or")
def o_or(I, callee, args, st, n, fidx):
    a, b = args
    return [Out("val", some(p) if is_s else b, s) for is_s, p, s in opt_cases(I, a, st, fidx)]


@prim("std::option::Option::and")
def o_and(I, callee, args, st, n, fidx):
    a, b = args
    return [Out("val", b if is_s else NONE, s) for is_s, p, s in opt_cases(I, a, st, fidx)]


@prim("std::option::Option::is_none_or")
def o_is_none_or(I, callee, args, st, n, fidx):
    a, f = args
    outs = []
    for is_s, p, s in opt_cases(I, a, st, fidx):
        if is_s:
            outs.extend(apply_all(I, f, [p], s, n, fidx))
        else:
            outs.append(Out("val", TRUE, s))
    return outs


@prim("std::option::Option::ok_or_else")
def o_ok_or_else(I, callee, args, st, n, fidx):
    a, f = args
    outs = []
    for is_s, p, s in opt_cases(I, a, st, fidx):
        if is_s:
            outs.append(Out("val", Enum("Ok", [p]), s))
        else:
            for o in apply_all(I, f, [], s, n, fidx):
                outs.append(Out("val", Enum("Err", [o.val]), o.st) if o.kind == "val" else o)
    return outs


@prim("std::result::Result::ok")
def r_ok(I, callee, args, st, n, fidx):
    return [Out("val", some(p) if is_s else NONE, s) for is_s, p, s in opt_cases(I, args[0], st, fidx)]


@prim("std::result::Result::is_ok", "std::result::Result::is_err")
def r_is_ok(I, callee, args, st, n, fidx):
    want = callee.endswith("is_ok")
    return [Out("val", cbool(is_s == want), s) for is_s, p, s in opt_cases(I, args[0], st, fidx)]


@prim("std::option::Option::copied", "std::option::Option::cloned", "std::option::Option::as_ref",
      "std::option::Option::as_mut", "std::option::Option::as_deref")
def o_id(I, callee, args, st, n, fidx):
    return val(args[0], st)


@prim("std::option::Option::unwrap", "std::option::Option::expect", "std::result::Result::unwrap",
      "std::result::Result::expect")
def o_unwrap(I, callee, args, st, n, fidx):
    outs = []
    for is_s, p, s in opt_cases(I, args[0], st, fidx):
        if is_s:
            outs.append(Out("val", p, s))
        else:
            I.emit(s, "panic", n, what=callee, msg="unwrap on None/Err")
            outs.append(Out("panic", None, s))
    return outs


@prim("std::ops::Try::branch")
def t_branch(I, callee, args, st, n, fidx):
    outs = []
    a = args[0]
    for is_s, p, s in opt_cases(I, a, st, fidx):
        if is_s:
            outs.append(Out("val", Enum("std::ops::ControlFlow::Continue", [p]), s))
        else:
            resid = NONE if (isinstance(a, Enum) and a.variant == "None") or "Option" in str(n["args"][0].get("ty") if n.get("args") else "") else Enum("Err", [p])
            outs.append(Out("val", Enum("std::ops::ControlFlow::Break", [resid]), s))
    return outs


@prim("std::ops::FromResidual::from_residual")
def t_from_residual(I, callee, args, st, n, fidx):
    return val(args[0], st)


# ---- misc std -------------------------------------------------------------------

@prim("core::slice::contains")
def s_contains(I, callee, args, st, n, fidx):
    arr, x = args
    if isinstance(x, LRef):
        x = I.deref(x, st)
    if isinstance(arr, Enum) and arr.path == "[array]":
        elems = arr.args
        # set test on a look-ahead char
        if isinstance(x, LA) and all(isinstance(e, Const) and e.t == "char" for e in elems):
            return [Out("val", cbool(ok), s) for ok, s in I.test_pred(x, ("in", frozenset(e.v for e in elems)), st)]
        if all(isinstance(e, Enum) and not e.args and not e.fields for e in elems) and not isinstance(x, (Enum, Const)):
            return [Out("val", cbool(ok), s) for ok, s in I.test_variant_set(x, [e.variant for e in elems], elems[0].path, st)]
        cur = [(False, st)]
        for e in elems:
            nxt = []
            for found, s in cur:
                if found:
                    nxt.append((True, s))
                else:
                    nxt.extend(I.test_eq(x, e, s))
            cur = nxt
        return [Out("val", cbool(ok), s) for ok, s in cur]
    return val(Term("contains", (arr, x), "bool"), st)


CHAR_PREDS = {
    "std::char::methods::is_whitespace": "is_whitespace",
    "std::char::methods::is_ascii_whitespace": "is_ascii_whitespace",
    "std::char::methods::is_ascii_digit": "is_ascii_digit",
    "std::char::methods::is_ascii": "is_ascii",
    "std::char::methods::is_ascii_hexdigit": "is_ascii_hexdigit",
    "std::char::methods::is_ascii_alphabetic": "is_ascii_alphabetic",
    "std::char::methods::is_ascii_alphanumeric": "is_ascii_alphanumeric",
    "std::char::methods::is_alphabetic": "is_alphabetic",
    "std::char::methods::is_alphanumeric": "is_alphanumeric",
    "std::char::methods::is_numeric": "is_numeric",
    "std::char::methods::is_ascii_punctuation": "is_ascii_punctuation",
    "std::char::methods::is_ascii_uppercase": "is_ascii_uppercase",
    "std::char::methods::is_ascii_lowercase": "is_ascii_lowercase",
    "std::char::methods::is_control": "is_control",
    "unicode_ident::is_xid_start": "is_xid_start",
    "unicode_ident::is_xid_continue": "is_xid_continue",
}


def char_pred(I, callee, args, st, n, fidx):
    name = CHAR_PREDS[callee]
    c = args[0]
    if isinstance(c, LRef):
        c = I.deref(c, st)
    if isinstance(c, Const) and c.t == "char":
        r = C.concrete(("p", name), c.v)
        if r is not None:
            return val(cbool(r), st)
    if isinstance(c, LA):
        return [Out("val", cbool(ok), s) for ok, s in I.test_pred(c, ("p", name), st)]
    return val(Term(name, (c,), "bool"), st)


for _k in CHAR_PREDS:
    PRIMS[_k] = char_pred


@prim("core::panicking::panic", "core::panicking::panic_fmt", "core::panicking::assert_failed",
      "core::panicking::unreachable_display", "core::panicking::panic_explicit", "core::panicking::panic_display",
      "std::rt::begin_panic", "core::panicking::panic_nounwind", "std::rt::panic_fmt")
def p_panic(I, callee, args, st, n, fidx):
    msg = None
    for a in args:
        if isinstance(a, Const) and a.t == "str":
            msg = a.v
    I.emit(st, "panic", n, what=callee, msg=msg, mac=n.get("mac"))
    return [Out("panic", None, st)]


@prim("std::io::_print", "std::io::_eprint")
def p_print(I, callee, args, st, n, fidx):
    return val(UNIT, st)


@prim("std::fmt::Arguments::new", "std::fmt::Arguments::from_str", "core::fmt::rt::Argument::new_debug",
      "core::fmt::rt::Argument::new_display", "std::fmt::Arguments::new_const", "std::fmt::Arguments::new_v1")
def p_fmt(I, callee, args, st, n, fidx):
    return val(Term("fmt"), st)


@prim("core::num::wrapping_add_signed")
def n_wrapping_add_signed(I, callee, args, st, n, fidx):
    a, b = args
    if isinstance(a, LRef):
        a = I.deref(a, st)
    if isinstance(b, LRef):
        b = I.deref(b, st)
    if isinstance(b, Const) and b.v == 0:
        return val(a, st)
    if isinstance(a, Const) and isinstance(b, Const):
        return val(Const("int", a.v + b.v), st)
    return val(Term("wrapping_add_signed", (a, b), n.get("ty")), st)


@prim("core::num::saturating_sub")
def n_saturating_sub(I, callee, args, st, n, fidx):
    a, b = args
    if isinstance(a, LRef):
        a = I.deref(a, st)
    if isinstance(a, Const) and isinstance(b, Const):
        return val(Const("int", max(0, a.v - b.v)), st)
    return val(Term("saturating_sub", (a, b), n.get("ty")), st)


@prim("std::convert::From::from", "std::convert::Into::into")
def cv_from(I, callee, args, st, n, fidx):
    a = args[0]
    ty = n.get("ty") or ""
    full = n.get("full") or ""
    if isinstance(a, LRef):
        a = I.deref(a, st)
    # TokenTypeMacroCallOrStat -> TokenType (generated From impl): same-named variant
    if "TokenTypeMacroCallOrStat" in full and ty.endswith("token_type::TokenType"):
        if isinstance(a, Enum) and not a.args:
            tgt = I.from_table.get(a.variant)
            if tgt:
                return val(Enum("token_type::TokenType::" + tgt), st)
        return val(Term("tt_from", (a,), "token_type::TokenType"), st)
    if isinstance(a, Const) and a.t in ("int", "bool", "byte"):
        return val(Const("int", int(a.v)), st)
    return val(Term("into", (a,), ty), st)


@prim("std::convert::TryFrom::try_from")
def cv_try_from(I, callee, args, st, n, fidx):
    a = args[0]
    full = n.get("full") or ""
    if "TokenTypeMacroCallOrStat" in full:
        names = set(I.from_table.keys())
        if isinstance(a, Enum) and not a.args:
            if a.variant in names:
                return val(Enum("Ok", [Enum("token_type::TokenTypeMacroCallOrStat::" + a.variant)]), st)
            return val(Enum("Err", [UNIT]), st)
        inc, exc = st.vfacts.get(I.vkey(a), (None, frozenset()))
        conv = Term("subset_conv", (a,), "token_type::TokenTypeMacroCallOrStat")
        if inc is not None and set(inc) <= names:
            return val(Enum("Ok", [conv]), st)
        s2 = st.clone()
        return [Out("val", Enum("Ok", [conv]), st), Out("val", Enum("Err", [UNIT]), s2)]
    return val(Term("try_from", (a,), n.get("ty")), st)


@prim("phf::Map::get")
def phf_get(I, callee, args, st, n, fidx):
    m, key = args
    name = None
    if isinstance(m, Term) and m.op.startswith("const:"):
        name = m.op[len("const:"):]
    vals = I.phf.get(name)
    if not vals:
        return val(Term("phf_get", (m, key), n.get("ty")), st)
    v = Term("phf_val", (Const("str", name), key), "token_type::TokenType")
    s2 = st.clone()
    st.vfacts[I.vkey(v)] = (frozenset(x.split("::")[-1] for _, x in vals), frozenset())
    cur = {c.id: c.pos for c in st.cursors.values()}
    I.emit(st, "phf_lookup", n, map=name, key=key, hit=True, cursors=cur)
    I.emit(s2, "phf_lookup", n, map=name, key=key, hit=False, cursors=cur)
    return [Out("val", some(v), st), Out("val", NONE, s2)]


@prim("core::str::len", "std::string::String::len")
def s_len(I, callee, args, st, n, fidx):
    a = args[0]
    if isinstance(a, Const) and a.t == "str" and isinstance(a.v, str):
        return val(Const("int", len(a.v.encode("utf-8"))), st)    # length of a string literal
    if isinstance(a, Term) and a.op == "as_str" and len(a.args) == 2:
        if eof_known(st, a.args[0].v, a.args[1].v) is True:
            return val(Const("int", 0), st)    # nothing left at end of input
    return val(Term("len", (a,), "usize"), st)


def snap_of(v):
    """(unit, stream, pos, delta) when v is a cursor snapshot: byte offset (source_len - remaining_len) or
    char offset (char_offset), possibly wrapped in ByteOffset/CharOffset/into and +/- a constant."""
    d = 0
    for _ in range(10):
        if isinstance(v, Enum) and (v.path.endswith("ByteOffset") or v.path.endswith("CharOffset")) and v.args:
            v = v.args[0]
        elif isinstance(v, Term) and (v.op == "into" or v.op.startswith("cast:")) and v.args:
            v = v.args[0]
        elif isinstance(v, Term) and v.op in ("bin:Sub", "bin:Add") and len(v.args) == 2 and isinstance(v.args[1], Const) and v.args[1].t == "int":
            d += v.args[1].v if v.op == "bin:Add" else -v.args[1].v
            v = v.args[0]
        elif isinstance(v, Term) and v.op == "bin:Sub" and isinstance(v.args[0], Term) and v.args[0].op == "source_len" \
                and isinstance(v.args[1], Term) and v.args[1].op == "remaining_len":
            return ("byte", v.args[1].args[0].v, v.args[1].args[1].v, d)
        elif isinstance(v, Term) and v.op == "char_offset" and v.args:
            return ("char", v.args[0].v, v.args[1].v, d)
        else:
            break
    return None


def byte_snapshot(v):
    """If v is a byte-offset snapshot of the main cursor (possibly wrapped), return (stream, pos, delta)."""
    d = 0
    for _ in range(8):
        if isinstance(v, Enum) and v.path.endswith("ByteOffset") and v.args:
            v = v.args[0]
        elif isinstance(v, Term) and v.op in ("into",) or (isinstance(v, Term) and v.op.startswith("cast:")):
            v = v.args[0]
        elif isinstance(v, Term) and v.op == "bin:Sub" and isinstance(v.args[1], Const) and v.args[1].t == "int":
            d -= v.args[1].v
            v = v.args[0]
        elif isinstance(v, Term) and v.op == "bin:Add" and isinstance(v.args[1], Const) and v.args[1].t == "int":
            d += v.args[1].v
            v = v.args[0]
        elif isinstance(v, Term) and v.op == "bin:Sub" and isinstance(v.args[0], Term) and v.args[0].op == "source_len" \
                and isinstance(v.args[1], Term) and v.args[1].op == "remaining_len":
            return (v.args[1].args[0].v, v.args[1].args[1].v, d)
        else:
            break
    return None


def str_get(I, callee, args, st, n, fidx):
    """&str::get(range): Some(slice) / None."""
    base, rng = args[0], args[1]
    start = end = None
    if isinstance(rng, Enum):
        start = rng.fields.get("start")
        end = rng.fields.get("end")
    ok_known = False
    info = {"base": base, "start": start, "end": end}
    if is_obj(base, "source"):
        a = byte_snapshot(start) if start is not None else None
        b = byte_snapshot(end) if end is not None else None
        if a and b and a[0] == b[0] and (a[1], 0) <= (b[1], 0) and a[1] <= b[1]:
            # both ends are cursor byte snapshots taken in order; a negative delta on the end must stay >= start
            ok_known = (a[2] == 0 and b[2] == 0) or (a[1] + 0 <= b[1] and b[2] >= -1 and a[2] >= -1)
        info["snap_start"], info["snap_end"] = a, b
    if isinstance(base, Term) and base.op == "as_str" and start is None and end is not None:
        # remaining-text view sliced by a byte distance measured on the same stream from the same position
        e = end
        while isinstance(e, Term) and (e.op.startswith("cast:") or e.op == "into") and e.args:
            e = e.args[0]
        if isinstance(e, Term) and e.op == "bin:Sub" and all(isinstance(x, Term) and x.op == "remaining_len" for x in e.args):
            a, b = e.args
            if a.args[0].v == base.args[0].v == b.args[0].v and a.args[1].v == base.args[1].v and b.args[1].v >= a.args[1].v:
                ok_known = True
                info["byte_distance"] = (a.args[1].v, b.args[1].v)
    sl = Term("str_slice", (base, start if start is not None else UNIT, end if end is not None else UNIT), "&str")
    I.emit(st, "str_get", n, ok_known=ok_known, **info)
    if ok_known:
        return val(some(sl), st)
    # generic: Option term with memoised outcome
    t = Term("str_get", (base, start if start is not None else UNIT, end if end is not None else UNIT), n.get("ty"))
    return val(t, st)


def _upper_of(x):
    return Term("upper_of", (x,), "&str")


@prim("core::str::to_ascii_uppercase", "std::str::to_ascii_uppercase", "alloc::str::to_ascii_uppercase")
def s_to_upper(I, callee, args, st, n, fidx):
    """ASCII upper-casing of a text: a canonical term, so that two upper-cased copies of the same text compare equal."""
    return val(_upper_of(args[0]), st)


@prim("std::string::String::as_str", "alloc::string::String::as_str")
def s_string_as_str(I, callee, args, st, n, fidx):
    if isinstance(args[0], Term) and args[0].op == "upper_of":
        return val(args[0], st)
    return val(Term("ext:" + callee, (args[0],), n.get("ty")), st)


@prim("core::str::from_utf8_unchecked", "std::str::from_utf8_unchecked")
def s_from_utf8_unchecked(I, callee, args, st, n, fidx):
    """`from_utf8_unchecked(&buf[..len(S)])` where the local buffer was filled, on this path, only with
    `to_ascii_uppercase()` bytes: the upper-cased copy of S (that the buffer holds exactly S's bytes upper-cased is
    rule R-UPPER-FLOW of C16; recorded as a cross-rule assumption)."""
    a = args[0]
    if isinstance(a, Term) and a.op == "index" and len(a.args) == 2:
        rng = a.args[1]
        end = rng.fields.get("end") if isinstance(rng, Enum) else None
        if isinstance(end, Term) and end.op == "len" and end.args:
            stores = [e for e in st.events if e.kind == "index_store"]
            if all("to_ascii_uppercase" in repr(e.d.get("value")) for e in stores):
                return val(_upper_of(end.args[0]), st)
    return val(Term("ext:" + callee, (a,), n.get("ty")), st)


@prim("core::str::is_empty")
def s_is_empty(I, callee, args, st, n, fidx):
    """is_empty of a source slice between two cursor byte snapshots: decided by the consumed-char lower bound."""
    a = args[0]
    if isinstance(a, Term) and a.op == "str_slice" and len(a.args) == 3:
        x, y = snap_of(a.args[1]), snap_of(a.args[2])
        if x and y and x[0] == y[0] == "byte" and x[1] == y[1] == "main" and x[3] == 0 and y[3] == 0:
            if x[2] == y[2]:
                return val(Const("bool", True), st)
            mc = st.fields.get("_minc", {})
            if x[2] in mc and y[2] in mc and mc[y[2]] - mc[x[2]] >= 1:
                return val(Const("bool", False), st)
    return val(Term("ext:core::str::is_empty", (a,), "bool"), st)


@prim("core::str::get")
def s_get(I, callee, args, st, n, fidx):
    return str_get(I, callee, args, st, n, fidx)


# ---- pending stat stack (BitVec) --------------------------------------------------

@prim("bit_vec::BitVec::push")
def b_push(I, callee, args, st, n, fidx):
    if is_obj(args[0], "pending_stat_stack"):
        I.emit(st, "pending", n, op="push", value=args[1])
        return val(UNIT, st)
    return val(UNIT, st)


@prim("bit_vec::BitVec::pop")
def b_pop(I, callee, args, st, n, fidx):
    if is_obj(args[0], "pending_stat_stack"):
        # is the pop dominated by a test that leaves at least one frame?  (len > 1, len >= 2, 1 < len ...)
        k = sum(1 for e in st.events if e.kind == "pending" and e.op in ("push", "pop"))
        lt = Term("pending_len", (Const("int", k),), "usize")
        guarded = False
        for cmp_, a, b, want in (("bin:Gt", lt, Const("int", 1), True), ("bin:Ge", lt, Const("int", 2), True),
                                 ("bin:Lt", Const("int", 1), lt, True), ("bin:Le", Const("int", 2), lt, True),
                                 ("bin:Le", lt, Const("int", 1), False), ("bin:Lt", lt, Const("int", 2), False)):
            f = st.bfacts.get(("b", Term(cmp_, (a, b), "bool").key()))
            if f is want:
                guarded = True
        # a frame pushed earlier on the same path also leaves the bottom frame in place
        depth = 0
        for e in st.events:
            if e.kind == "pending" and e.op == "push":
                depth += 1
            elif e.kind == "pending" and e.op == "pop":
                depth -= 1
        I.emit(st, "pending", n, op="pop", value=None, guarded=guarded or depth >= 1)
        return val(st.sym("pending_pop"), st)
    return val(st.sym("bv_pop"), st)


@prim("bit_vec::BitVec::len")
def b_len(I, callee, args, st, n, fidx):
    if is_obj(args[0], "pending_stat_stack"):
        return val(Term("pending_len", (Const("int", sum(1 for e in st.events if e.kind == "pending" and e.op in ("push", "pop"))),), "usize"), st)
    return val(Term("bv_len", (args[0],), "usize"), st)


@prim("bit_vec::BitVec::set")
def b_set(I, callee, args, st, n, fidx):
    if is_obj(args[0], "pending_stat_stack"):
        I.emit(st, "pending", n, op="set", value=args[2], index=args[1])
    return val(UNIT, st)


@prim("bit_vec::BitVec::get")
def b_get(I, callee, args, st, n, fidx):
    if is_obj(args[0], "pending_stat_stack"):
        # value last written on this path, if any
        for e in reversed(st.events):
            if e.kind == "pending" and e.op in ("set", "push"):
                return val(some(e.value), st)
            if e.kind == "pending" and e.op == "pop":
                break
        return val(some(Term("pending_stat@entry", (), "bool")), st)
    return val(Term("bv_get", tuple(args)), st)


# ---- WorkTokenizedBuffer ------------------------------------------------------------

BUF = "buffer::WorkTokenizedBuffer::"


@prim(BUF + "add_token")
def wb_add_token(I, callee, args, st, n, fidx):
    _, ch, ty, byte, start, line, payload = args
    main = st.cursors["main"]
    I.emit(st, "emit", n, channel=ch, type=ty, byte=byte, start=start, line=line, payload=payload,
           pos=main.pos, ckpt=st.ckpt, vfacts=None)
    st.tokens_epoch += 1
    st.fields["_last_emits"] = st.fields.get("_last_emits", ()) + ((ch, ty, st.tokens_epoch),)
    return val(UNIT, st)


@prim(BUF + "insert_token")
def wb_insert_token(I, callee, args, st, n, fidx):
    _, at, ch, ty, byte, start, line, payload = args
    I.emit(st, "insert_token", n, at=at, channel=ch, type=ty, byte=byte, start=start, line=line, payload=payload)
    st.tokens_epoch += 1
    return val(UNIT, st)


@prim(BUF + "add_line")
def wb_add_line(I, callee, args, st, n, fidx):
    _, byte, start = args
    main = st.cursors["main"]
    st.lines_epoch += 1
    I.emit(st, "add_line", n, byte=byte, start=start, pos=main.pos, epoch_after=st.lines_epoch)
    return val(Term("line_idx", (Const("int", st.lines_epoch),), "LineIdx"), st)


@prim(BUF + "last_line")
def wb_last_line(I, callee, args, st, n, fidx):
    return val(some(Term("last_line", (Const("int", st.lines_epoch),), "LineIdx")), st)


@prim(BUF + "last_line_info")
def wb_last_line_info(I, callee, args, st, n, fidx):
    return val(some(Term("last_line_info", (Const("int", st.lines_epoch),), "&LineInfo")), st)


@prim(BUF + "line_count")
def wb_line_count(I, callee, args, st, n, fidx):
    return val(Term("line_count", (Const("int", st.lines_epoch),), "u32"), st)


@prim(BUF + "token_count")
def wb_token_count(I, callee, args, st, n, fidx):
    I.emit(st, "history_read", n, what="token_count")
    return val(Term("token_count", (Const("int", st.tokens_epoch),), "u32"), st)


@prim(BUF + "last_token")
def wb_last_token(I, callee, args, st, n, fidx):
    return val(Term("last_token", (Const("int", st.tokens_epoch),), "Option<TokenIdx>"), st)


def last_emitted(st, default_only):
    """The token most recently emitted on this path (since entry / last rollback), if determinable."""
    for ch, ty, ep in reversed(st.fields.get("_last_emits", ())):
        if not default_only:
            return ch, ty, ep
        if isinstance(ch, Enum) and ch.variant == "DEFAULT":
            return ch, ty, ep
        if isinstance(ch, Enum):
            continue
        return None  # channel not constant: cannot tell
    return None


@prim(BUF + "last_token_info", BUF + "last_token_info_on_default_channel")
def wb_last_token_info(I, callee, args, st, n, fidx):
    default_only = callee.endswith("on_default_channel")
    le = last_emitted(st, default_only)
    kind = "default" if default_only else "any"
    if le is not None:
        ch, ty, ep = le
        v = Enum("buffer::TokenInfo", [], {"channel": ch, "token_type": ty})
        I.emit(st, "lookbehind", n, accessor=kind, own=True, value=v, epoch=st.tokens_epoch)
        return val(some(v), st)
    t = Term("prev_token:" + kind, (Const("int", st.tokens_epoch),), "Option<&TokenInfo>")
    I.emit(st, "lookbehind", n, accessor=kind, own=False, value=t, epoch=st.tokens_epoch)
    return val(t, st)


@prim(BUF + "last_token_info_mut", BUF + "last_token_info_on_default_channel_mut")
def wb_last_token_info_mut(I, callee, args, st, n, fidx):
    default_only = callee.endswith("on_default_channel_mut")
    kind = "default" if default_only else "any"
    le = last_emitted(st, default_only)
    I.emit(st, "lookbehind_mut", n, accessor=kind, own=le is not None, value=le, epoch=st.tokens_epoch)
    ref = LRef(("lasttok", kind))
    if le is not None:
        return val(some(ref), st)
    # a preceding read through the same accessor class at the same token epoch already saw Some
    t = Term("prev_token:" + kind, (Const("int", st.tokens_epoch),), "Option<&TokenInfo>")
    f = st.vfacts.get(t.key())
    if f is not None and f[0] is not None and set(f[0]) == {"Some"}:
        return val(some(ref), st)
    s2 = st.clone()
    return [Out("val", some(ref), st), Out("val", NONE, s2)]


@prim(BUF + "iter_token_infos")
def wb_iter(I, callee, args, st, n, fidx):
    I.emit(st, "lookbehind", n, accessor="iter", own=False, value=None)
    return val(Term("token_iter", (Const("int", st.tokens_epoch),)), st)


def _slice_emptiness(st, text):
    """True (provably empty) / False (provably non-empty) / None for a source slice between two cursor snapshots."""
    if isinstance(text, Const) and text.t == "str":
        return text.v == ""
    if isinstance(text, Term) and text.op == "str_slice" and len(text.args) == 3:
        x, y = snap_of(text.args[1]), snap_of(text.args[2])
        if x and y and x[0] == y[0] == "byte" and x[1] == y[1]:
            if x[2] == y[2] and x[3] == y[3]:
                return True
            mc = st.fields.get("_minc", {})
            if x[3] == 0 and y[3] == 0 and x[2] in mc and y[2] in mc and mc[y[2]] - mc[x[2]] >= 1:
                return False
    return None


def _litpos(st):
    k = st.fields.get("_litk", 0)
    if st.fields.get("_litk_unknown"):
        return Term("lit_next", (Const("int", st.fields.get("_lit", 0)),), "u32")
    return Term("litpos", (Const("int", k),), "u32")


@prim(BUF + "add_string_literal")
def wb_add_lit(I, callee, args, st, n, fidx):
    """Positions in the literal buffer are ordered labels litpos(k): an empty text leaves the position where it is,
    a provably non-empty one moves it to a strictly larger label; unknown -> opaque from then on."""
    st.fields["_lit"] = st.fields.get("_lit", 0) + 1
    e = st.fields["_lit"]
    start = _litpos(st)
    emp = _slice_emptiness(st, args[1])
    if emp is True:
        end = start
    elif emp is False and not st.fields.get("_litk_unknown"):
        st.fields["_litk"] = st.fields.get("_litk", 0) + 1
        end = _litpos(st)
    else:
        st.fields["_litk_unknown"] = True
        end = Term("lit_end", (Const("int", e),), "u32")
    r = Tup([start, end])
    I.emit(st, "add_literal", n, text=args[1], epoch=e, result=r, empty=emp)
    return val(r, st)


@prim(BUF + "next_string_literal_start")
def wb_next_lit(I, callee, args, st, n, fidx):
    return val(_litpos(st), st)


@prim("std::cmp::min", "core::cmp::min", "std::cmp::Ord::min")
def cmp_min(I, callee, args, st, n, fidx):
    a, b = args[0], args[1]
    if a.key() == b.key():
        return val(a, st)
    if isinstance(a, Term) and isinstance(b, Term) and a.op == b.op == "litpos":
        return val(a if a.args[0].v <= b.args[0].v else b, st)
    if isinstance(a, Const) and isinstance(b, Const) and a.t == b.t == "int":
        return val(a if a.v <= b.v else b, st)
    return val(Term("ext:" + callee, (a, b), n.get("ty")), st)


@prim(BUF + "checkpoint")
def wb_checkpoint(I, callee, args, st, n, fidx):
    return val(Enum("buffer::WorkBufferCheckpoint", [], {
        "tokens": Const("int", st.tokens_epoch), "lines": Const("int", st.lines_epoch),
        "lits": Const("int", st.fields.get("_lit", 0))}), st)


@prim(BUF + "rollback")
def wb_rollback(I, callee, args, st, n, fidx):
    I.emit(st, "buffer_rollback", n, checkpoint=args[1])
    st.fields["_last_emits"] = ()
    st.tokens_epoch += 1
    st.lines_epoch += 1
    st.fields["_lit"] = st.fields.get("_lit", 0) + 1
    st.fields["_litk_unknown"] = True      # the literal buffer was cut back to an earlier length
    return val(UNIT, st)


# ---- opaque (memoised) look-ahead helpers ---------------------------------------------

@prim("macro::is_macro_amp")
def m_is_macro_amp(I, callee, args, st, n, fidx):
    cid = cursor_of(args[0])
    if cid is None or cid not in st.cursors:
        return None
    c = st.cursors[cid]
    strm = stream(I, st, cid)
    t = Term("is_macro_amp", (Const("str", strm), Const("int", c.pos)))
    I.emit(st, "la_scan", n, scanner="is_macro_amp", result=t, pos=c.pos, unbounded=True)
    jump(st, c)   # the iterator passed in is consumed
    return val(Tup([Term("proj0", (t,), "bool"), Term("proj1", (t,), "u32")]), st)


@prim("macro::is_macro_eval_mnemonic")
def m_is_mnemonic(I, callee, args, st, n, fidx):
    cid = cursor_of(args[0])
    if cid is None or cid not in st.cursors:
        return None
    c = st.cursors[cid]
    strm = stream(I, st, cid)
    t = Term("is_macro_eval_mnemonic", (Const("str", strm), Const("int", c.pos)))
    jump(st, c)
    p0 = Term("proj0", (t,), "Option<TokenType>")
    # the token types the helper can return (constants in its body)
    if not hasattr(I, "_mnem"):
        b = I.fx.fn("macro::is_macro_eval_mnemonic")
        names = set()
        if b:
            for node, par in F.walk(b["hir"]):
                if node.get("k") == "Path":
                    cst = F.const_of(node)
                    if cst and cst.startswith("token_type::TokenType::"):
                        names.add(cst.split("::")[-1])
        I._mnem = frozenset(names)
    st.vfacts[Term("Some.0", (p0,), None).key()] = (I._mnem, frozenset())
    return val(Tup([p0, Term("proj1", (t,), "u32")]), st)


@prim("macro::get_macro_resolve_ops_from_amps")
def m_resolve_ops(I, callee, args, st, n, fidx):
    """Opaque: the vector of set-bit positions of `amp_count`; non-empty because every caller passes the
    count returned by is_macro_amp for a position whose first char is '&' (count >= 1).  Audited contract
    (tables/contracts.json: resolve_ops_nonempty)."""
    st.fields["_rops"] = st.fields.get("_rops", 0) + 1
    return val(Term("resolve_ops", (args[0], Const("int", st.fields["_rops"])), "Vec<u8>"), st)


@prim("std::iter::IntoIterator::into_iter")
def it_into_iter(I, callee, args, st, n, fidx):
    a = args[0]
    if isinstance(a, Enum) and a.path == "[array]":
        return val(Enum("[iter_items]", list(a.args)), st)
    if isinstance(a, Enum) and a.path == "[iter_items]":
        return val(a, st)
    if isinstance(a, Term) and a.op == "resolve_ops":
        return val(Term("iter_nonempty", (a,), "IntoIter<u8>"), st)
    if isinstance(a, Enum) and a.path.endswith("Range") and "start" in a.fields and "end" in a.fields:
        lo, hi = a.fields["start"], a.fields["end"]
        rng = Term("range", (lo, hi), "Range")
        nonempty = False
        if isinstance(lo, Const) and lo.v == 0:
            if isinstance(hi, Const):
                nonempty = hi.v > 0
            else:
                z = Const("int", 0)
                k1 = ("eq",) + tuple(sorted([repr(hi.key()), repr(z.key())]))
                k2 = ("b", Term("bin:Gt", (hi, z), "bool").key())
                nonempty = st.bfacts.get(k1) is False or st.bfacts.get(k2) is True
        return val(Term("iter_nonempty" if nonempty else "iter_rest", (rng,), "Range"), st)
    return val(st.sym("into_iter", n.get("ty")), st)


@prim("core::slice::first")
def sl_first(I, callee, args, st, n, fidx):
    a = args[0]
    if isinstance(a, Term) and a.op == "resolve_ops":
        return val(some(Term("first", (a,), "&u8")), st)
    if is_obj(a, "mode_stack"):
        return val(st.sym("first", n.get("ty")), st)
    return val(Term("ext:core::slice::first", (a,), n.get("ty")), st)


@prim("macro::is_macro_stat")
def m_is_macro_stat(I, callee, args, st, n, fidx):
    return val(Term("is_macro_stat", (args[0],), "bool"), st)


def numeric_token_types(I):
    """TokenType constants that numeric.rs can put into NumericParserResult.token (read from its HIR)."""
    if not hasattr(I, "_numtt"):
        tts = set()
        for name, b in I.fx.bodies.items():
            if not name.startswith("numeric::"):
                continue
            for node, par in F.walk(b["hir"]):
                if node.get("k") == "Path":
                    c = F.const_of(node)
                    if c and c.startswith("token_type::TokenType::"):
                        tts.add(c.split("::")[-1])
        I._numtt = frozenset(tts)
    return I._numtt


@prim("numeric::try_parse_decimal", "numeric::try_parse_hex_integer")
def num_parse(I, callee, args, st, n, fidx):
    """Opaque summary of the numeric.rs parsers (value-level; see DESIGN C08): Option<NumericParserResult>
    whose token type is one of the constants numeric.rs can produce."""
    t = Term("numparse:" + callee.split("::")[-1], tuple(args), "Option<NumericParserResult>")
    tt = Term("numtok", (t,), "token_type::TokenType")
    res = Enum("numeric::NumericParserResult", [], {
        "token": Tup([tt, Term("numpayload", (t,), "Payload")]),
        "length": Term("numlen", (t,), "NonZeroUsize"),
        "error": Term("numerr", (t,), "Option<ErrorKind>"),
    })
    key = ("b", t.key())
    if key in st.bfacts:
        if st.bfacts[key]:
            return val(some(res), st)
        return val(NONE, st)
    s2 = st.clone()
    s2.bfacts[key] = False
    s2.conds.append("%s is None" % (t.op,))
    st.bfacts[key] = True
    st.vfacts[tt.key()] = (numeric_token_types(I), frozenset())
    return [Out("val", some(res), st), Out("val", NONE, s2)]


def default_external(I, callee, args, st, n, fidx):
    """Unknown external function: an uninterpreted term over its arguments (pure by default)."""
    if callee.startswith("closure:"):
        I.note_unanalysed("unresolved closure call", n)
    pure_args = tuple(a for a in args)
    impure = any(callee.endswith(x) for x in ("::next", "::pop", "::next_back", "::collect", "::into_iter",
                                              "::rev", "::filter", "::take", "::enumerate", "::map", "::chars"))
    if impure:
        return val(st.sym(callee.split("::")[-1], n.get("ty")), st)
    return val(Term("ext:" + callee, pure_args, n.get("ty")), st)
