"""LEA — lexer effect analyser (engine E1).

A path-sensitive effect / typestate analysis over the type-checked HIR facts
of `sas_lexer` (metal/xgcc style: explicit path enumeration with a small
abstract domain, loops peeled once and then widened, crate-local calls
inlined — the crate's call graph is acyclic).  It never executes the lexer on
an input: characters are abstract look-ahead symbols constrained by the
patterns / guards / predicates met on the path.

The analysis works at the level of the *fields* of `Lexer` (`mode_stack`,
`checkpoint`, `errors`, `pending_stat_stack`, `macro_nesting_level`,
`cur_token_*`, `cursor`, `buffer`); `Lexer`'s own methods (`push_mode`,
`emit_token`, `rollback`, ...) are inlined like any other function, so a change
inside them is seen.  The leaf primitives are the methods of `Cursor`,
`WorkTokenizedBuffer` and std containers; `Cursor`/`buffer` bodies have their
own structural rules.

Result of `run_fn`: a list of `Path` objects, each with the ordered `events`,
the final abstract state and the path conditions.
"""
import copy
import itertools

from . import facts as F
from . import chars as C

# ---------------------------------------------------------------------------
# abstract values


class AV:
    __slots__ = ()


class Const(AV):
    __slots__ = ("t", "v")

    def __init__(self, t, v):
        self.t, self.v = t, v

    def key(self):
        return ("C", self.t, self.v if not isinstance(self.v, list) else tuple(self.v))

    def __repr__(self):
        return "%r" % (self.v,)


UNIT = Const("unit", None)
TRUE = Const("bool", True)
FALSE = Const("bool", False)


def cbool(b):
    return TRUE if b else FALSE


class Enum(AV):
    """Enum variant / struct value: path + positional args or named fields."""
    __slots__ = ("path", "args", "fields")

    def __init__(self, path, args=None, fields=None):
        self.path, self.args, self.fields = path, list(args or []), dict(fields or {})

    def key(self):
        return ("E", self.path, tuple(a.key() for a in self.args),
                tuple(sorted((k, v.key()) for k, v in self.fields.items())))

    @property
    def variant(self):
        return self.path.split("::")[-1]

    def __repr__(self):
        s = self.path.split("::")[-1] if "::" in self.path else self.path
        if self.args:
            s += "(" + ", ".join(map(repr, self.args)) + ")"
        if self.fields:
            s += "{" + ", ".join("%s: %r" % kv for kv in sorted(self.fields.items())) + "}"
        return s


def some(v):
    return Enum("Some", [v])


NONE = Enum("None")


class Tup(AV):
    __slots__ = ("items",)

    def __init__(self, items):
        self.items = list(items)

    def key(self):
        return ("T",) + tuple(i.key() for i in self.items)

    def __repr__(self):
        return "(" + ", ".join(map(repr, self.items)) + ")"


class Term(AV):
    """Uninterpreted value with provenance: op + argument values. `ty` is the rust type string."""
    __slots__ = ("op", "args", "ty", "_k", "_r")

    def __init__(self, op, args=(), ty=None):
        self.op, self.args, self.ty = op, tuple(args), ty
        self._k = None
        self._r = None

    def key(self):
        if self._k is None:
            self._k = ("X", self.op) + tuple(a.key() if isinstance(a, AV) else a for a in self.args)
        return self._k

    def __repr__(self):
        if not self.args:
            return "%s" % self.op
        r = getattr(self, "_r", None)
        if r is None:
            r = "%s(%s)" % (self.op, ", ".join(repr(a) for a in self.args))
            try:
                object.__setattr__(self, "_r", r)
            except AttributeError:
                pass
        return r


class LA(AV):
    """Look-ahead character symbol: the char `off` positions after cursor position `pos` of cursor `cur`."""
    __slots__ = ("cur", "pos", "off")

    def __init__(self, cur, pos, off=0):
        self.cur, self.pos, self.off = cur, pos, off

    def key(self):
        return ("LA", self.cur, self.pos + self.off)

    @property
    def abspos(self):
        return self.pos + self.off

    def __repr__(self):
        return "ch[%s@%d]" % (self.cur, self.pos + self.off)


class Obj(AV):
    """Singleton-ish objects: the lexer, its fields, cursors."""
    __slots__ = ("kind", "id")

    def __init__(self, kind, id=None):
        self.kind, self.id = kind, id

    def key(self):
        return ("O", self.kind, self.id)

    def __repr__(self):
        return "<%s%s>" % (self.kind, "" if self.id is None else ":%s" % (self.id,))


LEXER = Obj("lexer")


class Closure(AV):
    __slots__ = ("node", "frame")

    def __init__(self, node, frame):
        self.node, self.frame = node, frame

    def key(self):
        return ("CL", self.node.get("def"), self.node.get("sp"))

    def __repr__(self):
        return "closure@%s" % F.file_line(self.node.get("sp", "?"))


class FnRef(AV):
    __slots__ = ("path",)

    def __init__(self, path):
        self.path = path

    def key(self):
        return ("FN", self.path)

    def __repr__(self):
        return "fn:%s" % self.path


class LRef(AV):
    """Mutable reference into an abstract location: ('stack', index, field) or ('local', frame, id)."""
    __slots__ = ("loc",)

    def __init__(self, loc):
        self.loc = loc

    def key(self):
        return ("LR",) + tuple(str(x) for x in self.loc)

    def __repr__(self):
        return "&mut %s" % (self.loc,)


class SLen(AV):
    """Length of the mode stack expressed relative to the entry base: base + d."""
    __slots__ = ("d",)

    def __init__(self, d):
        self.d = d

    def key(self):
        return ("SL", self.d)

    def __repr__(self):
        return "stack_len%+d" % self.d


# ---------------------------------------------------------------------------
# events


class Ev:
    __slots__ = ("kind", "site", "fn", "d")

    def __init__(self, evk, site, fn, **d):
        self.kind, self.site, self.fn, self.d = evk, site, fn, d

    def __getattr__(self, name):
        try:
            return self.d[name]
        except KeyError:
            raise AttributeError(name)

    def __repr__(self):
        return "%s@%s %s" % (self.kind, F.file_line(self.site or "?"), {k: v for k, v in self.d.items() if k not in ("node",)})


# ---------------------------------------------------------------------------
# path state


class Unanalysed(Exception):
    pass


class Budget(Exception):
    pass


class Cursor:
    """Abstract cursor: a numbered stream with a position counter (count of consumption steps)."""
    __slots__ = ("id", "pos", "exact", "origin")

    def __init__(self, id, pos=0, exact=True, origin=None):
        self.id, self.pos, self.exact, self.origin = id, pos, exact, origin

    def copy(self):
        return Cursor(self.id, self.pos, self.exact, self.origin)


class St:
    """Abstract state of one path."""

    def __init__(self):
        self.frames = []          # list of dict local-id -> AV
        self.cs = {}              # LA key -> C.CharFacts
        self.bfacts = {}          # term key -> bool
        self.vfacts = {}          # term key -> (include frozenset|None, exclude frozenset) of enum variant names
        self.cursors = {}         # id -> Cursor ; 'main' is the lexer's
        self.next_cur = 1
        self.stack = []           # known suffix of the mode stack (AVs); below it: unknown
        self.below_pops = 0       # how many unknown modes were popped below the known suffix
        self.base = 0             # SLen delta of the bottom of `stack` (entry: len(entry stack) known part starts at 0)
        self.stack_ok = True      # False once the stack shape is no longer tracked precisely
        self.ckpt = "none"        # none | some | unk
        self.ckpt_val = None
        self.events = []
        self.conds = []           # human-readable path conditions
        self.cur_token = {}       # field name -> AV
        self.nesting = Term("macro_nesting_level@entry", (), "u32")
        self.fresh = 0
        self.fields = {}          # other lexer fields
        self.lines_epoch = 0
        self.tokens_epoch = 0
        self.dead = False

    def clone(self):
        s = St.__new__(St)
        s.frames = [dict(f) for f in self.frames]
        s.cs = dict(self.cs)
        s.bfacts = dict(self.bfacts)
        s.vfacts = dict(self.vfacts)
        s.cursors = {k: v.copy() for k, v in self.cursors.items()}
        s.next_cur = self.next_cur
        s.stack = list(self.stack)
        s.below_pops = self.below_pops
        s.base = self.base
        s.stack_ok = self.stack_ok
        s.ckpt = self.ckpt
        s.ckpt_val = self.ckpt_val
        s.events = list(self.events)
        s.conds = list(self.conds)
        s.cur_token = dict(self.cur_token)
        s.nesting = self.nesting
        s.fresh = self.fresh
        s.fields = dict(self.fields)
        s.lines_epoch = self.lines_epoch
        s.tokens_epoch = self.tokens_epoch
        s.dead = self.dead
        return s

    def sym(self, op, ty=None):
        self.fresh += 1
        return Term("%s#%d" % (op, self.fresh), (), ty)

    # char facts --------------------------------------------------------
    def cf(self, la):
        return self.cs.get(la.key()) or C.CharFacts()

    def set_cf(self, la, cf):
        self.cs[la.key()] = cf


class Path:
    def __init__(self, kind, value, st):
        self.kind = kind      # 'ret' normal return, 'panic'
        self.value = value
        self.st = st
        self.events = st.events


import re as _re_mod
_FACT_POS_RE = _re_mod.compile(r"'main'\), \('C', 'int', (\d+)\)")
_POS_RE = _re_mod.compile(r"(?:main|la\d+|ck)(?:@|', )(-?\d+)")


class Segment:
    """One explored execution segment: events[start:] of out.st (a function activation or a loop)."""
    __slots__ = ("out", "start", "level", "name")

    def __init__(self, out, start, level, name):
        self.out, self.start, self.level, self.name = out, start, level, name

    @property
    def st(self):
        return self.out.st

    @property
    def events(self):
        return self.out.st.events


# outcome kinds: 'val', 'brk', 'cont', 'ret', 'panic'


class Out:
    __slots__ = ("kind", "val", "st", "target")

    def __init__(self, kind, val, st, target=None):
        self.kind, self.val, self.st, self.target = kind, val, st, target


# ---------------------------------------------------------------------------


def is_lexer_ty(ty):
    return ty is not None and ("lexer::Lexer<" in ty or ty.endswith("lexer::Lexer"))


class Interp:
    def __init__(self, fx, budget=60000, inline_filter=None, hooks=None):
        self.fx = fx
        self.budget = budget
        self.paths_seen = 0
        self.steps = 0
        self.hooks = hooks or {}
        self.unanalysed = []   # (fn, construct, site)
        self.inline_filter = inline_filter
        self.fn_stack = []
        self.call_sites = []
        self.phf = {}
        self._load_phf()
        self.from_table = self._load_from_impl()
        self.loop_assigned_cache = {}
        self._fact_info = {}
        self.mode_domains = {}   # (LexerMode variant, field) -> constants seen at all push sites
        self.probe_enabled = True
        self.exact_second = True
        self.in_probe = False
        self.probe_loop = None
        self.probe_benign = {}   # scanner fn -> loop locals whose difference is audited as harmless
        self.checkers = []      # segment checkers: fn(I, Segment)
        self.obs = {}           # (rule, key) -> dict(ok, site, detail, n)
        self.prune = True
        self.prune_min = 3
        self.stats = {"activations": 0, "segments": 0, "pruned": 0, "paths_before_prune": 0}

    # ---- static tables from the facts ---------------------------------
    def _load_phf(self):
        for sname in ("token_type::KEYWORDS", "token_type::MKEYWORDS"):
            b = self.fx.fn(sname)
            vals = []
            if b:
                for node, par in F.walk(b["hir"]):
                    if node.get("k") == "Tup" and len(node["elems"]) == 2:
                        l = F.lit_of(node["elems"][0])
                        c = F.const_of(node["elems"][1])
                        if l and l[0] == "str" and c:
                            vals.append((l[1], c))
            self.phf[sname] = vals

    def _load_from_impl(self):
        """TokenTypeMacroCallOrStat -> TokenType mapping read from the generated From impl."""
        name = "<token_type::TokenType as std::convert::From<token_type::TokenTypeMacroCallOrStat>>::from"
        b = self.fx.bodies.get(name)
        table = {}
        if b:
            for node, par in F.walk(b["hir"]):
                if node.get("k") == "Match":
                    for a in node["arms"]:
                        pc = F.pat_consts(a["pat"])
                        bc = F.const_of(F.strip(a["body"]))
                        if bc and len(pc) == 1 and pc[0][0] == "path":
                            table[pc[0][1].split("::")[-1]] = bc.split("::")[-1]
        return table

    # ---- helpers --------------------------------------------------------
    def note_unanalysed(self, what, node):
        fn = self.fn_stack[-1] if self.fn_stack else "?"
        ent = (fn, what, F.file_line(node.get("sp", "?")) if isinstance(node, dict) else "")
        if ent not in self.unanalysed:
            self.unanalysed.append(ent)

    WRAPPERS = frozenset([
        "Lexer::emit_token", "Lexer::emit_token_at_mark", "Lexer::push_mode", "Lexer::pop_mode",
        "Lexer::emit_error", "Lexer::emit_error_info", "Lexer::checkpoint", "Lexer::clear_checkpoint",
        "Lexer::rollback", "Lexer::emit_empty_macro_string_token", "Lexer::update_last_token",
        "Lexer::start_token", "Lexer::add_line", "Lexer::mode", "Lexer::set_pending_stat",
        "Lexer::push_pending_stat", "Lexer::pop_pending_stat", "Lexer::pending_stat",
        "Lexer::mark_token_start", "Lexer::prep_error_info_at_cur_offset", "error::ErrorInfo::new",
        "Lexer::cur_byte_offset", "Lexer::cur_char_offset", "text::ByteOffset::new", "text::CharOffset::new",
        "Lexer::add_string_literal_from_src", "Lexer::resolve_string_literal_payload"])

    def owner(self):
        """Innermost active crate function that is not one of the thin Lexer wrappers."""
        for nme in reversed(self.fn_stack):
            if nme not in self.WRAPPERS:
                return nme
        return self.fn_stack[0] if self.fn_stack else "?"

    def owner_site(self, node):
        """(owner function, site in the owner) for an event raised at `node`: if the event comes from inside a
        thin wrapper, the site is the wrapper call in the owner."""
        i = len(self.fn_stack) - 1
        site = node.get("sp") if isinstance(node, dict) else None
        while i >= 0 and self.fn_stack[i] in self.WRAPPERS:
            site = self.call_sites[i]
            i -= 1
        return (self.fn_stack[i] if i >= 0 else (self.fn_stack[0] if self.fn_stack else "?")), site

    def emit(self, st, evk, node, **d):
        own, osite = self.owner_site(node)
        st.events.append(Ev(evk, node.get("sp") if isinstance(node, dict) else None,
                            self.fn_stack[-1] if self.fn_stack else "?", node=node, owner=own, osite=osite, **d))

    def tick(self):
        self.steps += 1
        if self.steps > self.budget * 400:
            raise Budget("step budget exhausted")

    # ---- obligations recorded by segment checkers -----------------------------
    def ob(self, rule, key, ok, site="", detail=""):
        k = (rule, key)
        cur = self.obs.get(k)
        if cur is None:
            self.obs[k] = {"rule": rule, "key": key, "ok": bool(ok), "site": site, "detail": detail, "n": 1}
        else:
            cur["n"] += 1
            if cur["ok"] and not ok:
                cur.update(ok=False, site=site, detail=detail)

    def sink(self, outs, start, level, name):
        """Hand every explored segment (before pruning) to the checkers."""
        if not self.checkers:
            return
        for o in outs:
            seg = Segment(o, start, level, name)
            self.stats["segments"] += 1
            for c in self.checkers:
                c(self, seg)

    IFACE = frozenset(["push", "pop", "pop_empty", "stack_insert", "stack_truncate", "stack_empty_seen", "mode_update",
                       "ckpt", "emit", "insert_token", "error", "pending", "nesting", "lasttok_write",
                       "lookbehind_mut", "panic", "cursor_restore", "buffer_rollback", "stack_replaced",
                       "field_write", "history_read", "advance_at_eof", "phf_lookup"])

    def out_sig(self, o, start, fidx, with_frame):
        st = o.st
        evs = []
        nl_pending = False
        for e in st.events[start:]:
            k = e.kind
            if k == "consume":
                if e.d.get("chars") is None:
                    nl_pending = True
                else:
                    nl_pending = any(st.cf(c).may_be("\n") for c in e.chars)
            elif k == "add_line":
                nl_pending = False
            if k in self.IFACE:
                d = e.d
                if k == "emit":
                    evs.append((k, e.site, repr(d["channel"]), repr(d["type"]), repr(d["payload"])[:40],
                                repr(d["byte"])))
                elif k == "error":
                    evs.append((k, e.site, repr(d.get("err")), d.get("ckpt")))
                elif k in ("push", "pop"):
                    evs.append((k, e.site, repr(d.get("mode")), d.get("known")))
                elif k == "mode_update":
                    evs.append((k, e.site, repr(d.get("path")), repr(d.get("value"))))
                elif k == "ckpt":
                    evs.append((k, e.site, d.get("op"), d.get("prior")))
                elif k == "pending":
                    evs.append((k, e.site, d.get("op"), repr(d.get("value"))))
                elif k == "panic":
                    evs.append((k, e.site, d.get("msg")))
                else:
                    evs.append((k, e.site))
        main = st.cursors["main"]
        strm = self.stream_of(st, "main")
        la = tuple(repr(st.cs.get(("LA", strm, main.pos + i))) for i in (0, 1))
        eofs = tuple(sorted((k, v) for k, v in st.fields.get("_eof", {}).items() if k[0] == strm and k[1] >= main.pos))
        facts = []
        fic = self._fact_info
        for fk, fv in itertools.chain(st.bfacts.items(), st.vfacts.items()):
            info = fic.get(fk)
            if info is None:
                r = repr(fk)
                # facts about fresh symbols or about the *content* of consumed text are value-level and
                # cannot be re-tested by the caller
                drop = ("#" in r or "str_slice" in r or "str_get" in r or "as_str" in r or "numparse" in r
                        or "token_iter" in r)
                ps = [int(x) for x in _FACT_POS_RE.findall(r)] if not drop else []
                info = fic[fk] = (r, drop, max(ps) if ps else None)
            if info[1]:
                continue
            if info[2] is not None and info[2] < main.pos:
                continue
            if isinstance(fv, tuple):
                fv = (tuple(sorted(fv[0])) if fv[0] is not None else None, tuple(sorted(fv[1])))
            facts.append((info[0], fv))
        facts.sort(key=lambda x: x[0])
        nframes = fidx + (1 if with_frame else 0)
        frames = tuple(tuple(sorted((k, repr(v)) for k, v in fr.items())) for fr in st.frames[:nframes])
        consumed = any(e.kind == "consume" for e in st.events[start:])
        tok_started = any(e.kind == "cur_token_write" for e in st.events[start:])
        sig = (o.kind, repr(o.val) if o.val is not None else None, o.target, tuple(evs), nl_pending, consumed, tok_started,
               repr(st.stack), st.base, st.below_pops, st.ckpt, st.stack_ok, la, eofs, tuple(facts), frames,
               repr(st.nesting), repr(sorted(st.cur_token.items(), key=lambda x: x[0])) if not tok_started else None)
        # canonical (order-preserving) renaming of cursor position labels: paths that differ only in how
        # many characters a scan consumed are equivalent for the path-level rules; the exactness-sensitive
        # rules run on the unpruned segments (see DESIGN 2.2)
        txt = repr(sig)
        nums = sorted({int(x) for x in _POS_RE.findall(txt)})
        rank = {n: i for i, n in enumerate(nums)}
        return _POS_RE.sub(lambda m: m.group(0).replace(m.group(1), "p%d" % rank[int(m.group(1))]), txt)

    def prune_outs(self, outs, start, fidx, with_frame=False):
        if not self.prune or len(outs) <= self.prune_min:
            return outs
        self.stats["paths_before_prune"] += len(outs)
        seen = {}
        kept = []
        for o in outs:
            sg = self.out_sig(o, start, fidx, with_frame)
            if sg in seen:
                self.stats["pruned"] += 1
                continue
            seen[sg] = True
            kept.append(o)
        return kept

    # ---- entry ------------------------------------------------------------
    def run_fn(self, name, st, args):
        """Interpret function `name` from state st with argument AVs; returns list[Out] (kinds ret/panic)."""
        outs = self.call_local(name, args, st, {"sp": None})
        res = []
        for o in outs:
            if o.kind == "val":
                res.append(Out("ret", o.val, o.st))
            else:
                res.append(o)
        return res

    # ---- calls ------------------------------------------------------------
    # ---- pre-consumption probe (R-PRECONSUME) -----------------------------------------------------------
    PROBE_EFFECTS = frozenset(["consume", "add_line", "emit", "insert_token", "push", "pop", "error", "ckpt",
                               "lasttok_write", "mode_update", "nesting", "pending", "add_literal", "cursor_restore",
                               "stack_insert", "stack_truncate", "field_write"])

    def preconsume_probe(self, name, args, st, node):
        """A dispatcher that consumes the first character of a token itself and then hands over to a scanner loop
        claims that the scanner would have treated this character as plain text.  Check the claim: run the first
        iteration of the callee from the token start and compare what it does with what the caller did."""
        from . import lea_prims
        if not self.fn_stack or not name.startswith("Lexer::"):
            return      # only scanners of the lexer itself work from the token start; helpers get a cursor by contract
        caller = self.fn_stack[-1]
        tb = st.cur_token.get("cur_token_byte_offset")
        sn = lea_prims.snap_of(tb) if tb is not None else None
        if sn is None or sn[1] != "main" or sn[3] != 0:
            return
        main = st.cursors.get("main")
        if main is None or main.pos != sn[2] + 1:
            return
        # what the caller did since the token start
        mine = []
        for e in reversed(st.events):
            if e.kind == "cur_token_write" and e.d.get("field") == "cur_token_byte_offset":
                break
            if e.kind in self.PROBE_EFFECTS:
                mine.append(e)
        else:
            return
        mine.reverse()
        if not mine or mine[0].kind != "consume" or mine[0].d.get("via") != "advance" or mine[0].d.get("pos") != sn[2]:
            return
        if any((e.d.get("owner") or e.fn) != caller for e in mine) or [e.kind for e in mine] not in (["consume"], ["consume", "add_line"]):
            return
        rew = st.clone()
        rew.cursors["main"].pos = sn[2]
        n0 = len(rew.events)
        saved = (self.checkers, self.prune)
        self.checkers = []
        self.prune = False
        self.in_probe = True
        self.probe_loop = None
        verdict = None
        try:
            try:
                outs = self.call_local(name, args, rew, node)
            except (Unanalysed, Budget) as ex:
                outs = None
                verdict = ("skip", "probe not analysable: %s" % ex)
        finally:
            self.in_probe = False
            self.probe_loop = None
            self.checkers, self.prune = saved
        if outs is not None:
            n_loop = 0
            n_end = 0
            bad = None
            benign_notes = set()
            for o in outs:
                if o.kind == "panic":
                    continue
                evs = o.st.events[n0:]
                eff = []
                entered = False
                back = None
                frame0 = None
                for e in evs:
                    if e.kind == "loop_enter" and not entered and not eff:
                        entered = True
                        frame0 = e.d.get("frame")
                        continue
                    if e.kind == "loop_back" and entered:
                        back = e
                        break
                    if e.kind in self.PROBE_EFFECTS:
                        eff.append(e)
                if not entered:
                    continue        # not a scanner loop on this path
                n_loop += 1
                if back is None:
                    # the callee would stop scanning at this character (emit / break / return): the caller's
                    # consumption only forces progress there; token boundaries differ, nothing is mis-read
                    n_end += 1
                    continue
                if [x.kind for x in eff] != [x.kind for x in mine] or eff[0].d.get("via") not in ("advance",) \
                        or eff[0].d.get("pos") != sn[2] or o.st.cursors["main"].pos != main.pos:
                    bad = bad or ("the callee would do [%s] and stop at position +%d, the caller did [%s] and stopped at +1"
                                  % (", ".join(x.kind for x in eff), o.st.cursors["main"].pos - sn[2], ", ".join(x.kind for x in mine)))
                    continue
                f1 = back.d.get("frame") or {}
                diff = [k for k in f1 if frame0 is not None and k in frame0 and hasattr(f1[k], "key") and hasattr(frame0[k], "key")
                        and f1[k].key() != frame0[k].key()]
                if diff:
                    names = self.local_names(name)
                    dn = sorted(names.get(k, "#%s" % k) for k in diff)
                    if all(x in self.probe_benign.get(name.split("::")[-1], ()) for x in dn):
                        benign_notes.add(",".join(dn))
                        continue
                    bad = bad or ("[locals: %s] " % ",".join(dn)) + ("the callee would change its loop state (%d local(s), e.g. a nesting count or a literal "
                                  "section start) while consuming this character; conditions: %s"
                                  % (len(diff), "; ".join(o.st.conds[-3:])[:200]))
            if n_loop == 0:
                verdict = ("skip", "callee is not a scanner loop")
            elif bad:
                verdict = ("bad", bad)
            else:
                verdict = ("ok", "%d first-iteration path(s) of the callee consume exactly this character as plain text (%d would stop scanning there%s)" % (n_loop - n_end, n_end, "; audited loop-state difference: " + ";".join(sorted(benign_notes)) if benign_notes else ""))
        self.emit(st, "preconsume_probe", node, callee=name, caller=caller, verdict=verdict[0], why=verdict[1],
                  first=mine[0])

    def local_names(self, fn):
        key = ("names", fn)
        if key not in self.loop_assigned_cache:
            m = {}
            b = self.fx.bodies.get(fn)
            if b is not None:
                for x, _ in F.walk(b["hir"]):
                    if x.get("k") == "Bind" and "id" in x and x.get("name"):
                        m[x["id"]] = x["name"]
                for p_ in b.get("params", []):
                    for x, _ in F.walk(p_):
                        if x.get("k") == "Bind" and "id" in x and x.get("name"):
                            m[x["id"]] = x["name"]
            self.loop_assigned_cache[key] = m
        return self.loop_assigned_cache[key]

    def call_local(self, name, args, st, node):
        b = self.fx.bodies.get(name)
        if b is None:
            raise Unanalysed("no body for %s" % name)
        if len(self.fn_stack) > 40:
            raise Unanalysed("call depth")
        if self.probe_enabled and not self.in_probe:
            self.preconsume_probe(name, args, st, node)
        frame = {}
        st.frames.append(frame)
        fidx = len(st.frames) - 1
        self.fn_stack.append(name)
        self.call_sites.append(node.get("sp") if isinstance(node, dict) else None)
        try:
            e0 = len(st.events)
            self.stats["activations"] += 1
            self.emit(st, "enter", node, callee=name, args=list(args), depth=len(self.fn_stack))
            outs = [Out("val", UNIT, st)]
            params = b["params"]
            # bind params
            sts = [st]
            for p, a in zip(params, args):
                nsts = []
                for s in sts:
                    for ok, s2 in self.bind(p, a, s, fidx):
                        if ok:
                            nsts.append(s2)
                sts = nsts
            res = []
            for s in sts:
                for o in self.ev(b["hir"], s, fidx):
                    if o.kind in ("val", "ret"):
                        ret_frame = o.st.frames[fidx] if fidx < len(o.st.frames) else {}
                        o.st.frames = o.st.frames[:fidx]
                        self.emit(o.st, "leave", node, callee=name, ret=o.val, frame=ret_frame)
                        res.append(Out("val", o.val, o.st))
                    elif o.kind in ("panic", "loopback"):
                        res.append(o)
                    else:
                        raise Unanalysed("break/continue escaping function %s" % name)
            self.sink(res, e0, "fn", name)
            return self.prune_outs(res, e0, fidx)
        finally:
            self.fn_stack.pop()
            self.call_sites.pop()

    # ---- patterns -----------------------------------------------------------
    def bind(self, pat, val, st, fidx):
        """Match value against pattern. Yields (matched: bool, state) alternatives (state is forked as needed).
        For refutable patterns yields both possibilities when undecided."""
        k = pat["k"]
        if k in ("Wild", "Missing"):
            return [(True, st)]
        if k == "Bind":
            if pat.get("sub"):
                res = []
                for ok, s in self.bind(pat["sub"], val, st, fidx):
                    if ok:
                        s.frames[fidx][pat["id"]] = val
                    res.append((ok, s))
                return res
            st.frames[fidx][pat["id"]] = val
            return [(True, st)]
        if k in ("Ref", "Box", "Deref"):
            return self.bind(pat["pat"], val, st, fidx)
        if k == "Or":
            alts = pat["pats"]
            if not isinstance(val, (Enum, Const, LRef)):
                cps = [const_path_pat(q) for q in alts]
                if all(cps):
                    return self.test_variant_set(val, [c.split("::")[-1] for c in cps], cps[0], st)
            if isinstance(val, LA):
                chs = [char_lit_pat(q) for q in alts]
                if all(c is not None for c in chs):
                    return self.test_pred(val, ("in", frozenset(chs)), st)
            res = []
            cur = [st]
            for q in pat["pats"]:
                nxt = []
                for s in cur:
                    alts = self.bind(q, val, s.clone() if len(pat["pats"]) > 1 else s, fidx)
                    for ok, s2 in alts:
                        if ok:
                            res.append((True, s2))
                        else:
                            nxt.append(s2)
                cur = nxt
            for s in cur:
                res.append((False, s))
            return res
        if k == "Expr":
            e = pat["e"]
            if e["k"] == "Lit":
                lit = Const(e["lt"], e["v"])
                return self.test_eq(val, lit, st)
            path = F.norm(e["res"].get("def", "?"))
            return self.test_variant(val, path, [], None, st, fidx)
        if k == "Path":
            path = F.norm(pat["res"].get("def", "?"))
            return self.test_variant(val, path, [], None, st, fidx)
        if k == "Range":
            lo = pat.get("lo")
            hi = pat.get("hi")
            return self.test_range(val, lo, hi, pat.get("incl"), st)
        if k == "Tuple":
            if isinstance(val, Tup) and len(val.items) == len(pat["pats"]):
                items = val.items
            else:
                items = [Term("proj%d" % i, (val,), q.get("ty")) for i, q in enumerate(pat["pats"])]
            cur = [(True, st)]
            for q, it in zip(pat["pats"], items):
                nxt = []
                for ok, s in cur:
                    if not ok:
                        nxt.append((False, s))
                        continue
                    nxt.extend(self.bind(q, it, s, fidx))
                cur = nxt
            return cur
        if k == "TupleStruct":
            path = F.norm(pat["res"].get("def", "?"))
            return self.test_variant(val, path, pat["pats"], None, st, fidx)
        if k == "Struct":
            path = F.norm(pat["res"].get("def", "?"))
            return self.test_variant(val, path, None, pat["fields"], st, fidx)
        self.note_unanalysed("pattern " + k, pat)
        return [(True, st.clone()), (False, st)]

    def variant_name(self, path):
        return path.split("::")[-1]

    def test_variant(self, val, path, subpats, fieldpats, st, fidx):
        vname = self.variant_name(path)
        if isinstance(val, Obj) and val.kind == "checkpoint" and vname in ("Some", "None"):
            # Option<LexerCheckpoint> field: decided by the checkpoint typestate, the payload is a reference
            # into the saved checkpoint value
            alts = []
            if st.ckpt == "unk":
                s_some = st.clone()
                s_some.ckpt, s_some.ckpt_val = "some", Term("ckpt@entry")
                st.ckpt, st.ckpt_val = "none", None
                alts = [(True, s_some), (False, st)]
            else:
                alts = [(st.ckpt == "some", st)]
            res = []
            for is_some, s in alts:
                if vname == "None":
                    res.append((not is_some, s))
                elif not is_some:
                    res.append((False, s))
                elif subpats:
                    res.extend(self.bind(subpats[0], LRef(("ckptval",)), s, fidx))
                else:
                    res.append((True, s))
            return res
        if isinstance(val, LRef):
            inner = self.deref(val, st)
            res = self.test_variant_ref(val, inner, path, subpats, fieldpats, st, fidx)
            return res
        if isinstance(val, Enum):
            if val.variant != vname:
                # struct patterns name the struct itself (not an enum variant)
                if not (fieldpats is not None and val.path.split("::")[-1] == vname):
                    return [(False, st)]
            cur = [(True, st)]
            if subpats:
                for i, q in enumerate(subpats):
                    item = val.args[i] if i < len(val.args) else Term("field%d" % i, (val,), q.get("ty"))
                    nxt = []
                    for ok, s in cur:
                        if not ok:
                            nxt.append((False, s))
                        else:
                            nxt.extend(self.bind(q, item, s, fidx))
                    cur = nxt
            if fieldpats:
                for fp in fieldpats:
                    item = val.fields.get(fp["name"])
                    if item is None and fp["name"].isdigit() and int(fp["name"]) < len(val.args):
                        item = val.args[int(fp["name"])]   # tuple-variant matched with `V { 0: x }` (the `?` desugaring)
                    if item is None:
                        item = Term("field:" + fp["name"], (val,), fp["pat"].get("ty"))
                    nxt = []
                    for ok, s in cur:
                        if not ok:
                            nxt.append((False, s))
                        else:
                            nxt.extend(self.bind(fp["pat"], item, s, fidx))
                    cur = nxt
            return cur
        if isinstance(val, Const) and val.t == "unit":
            return [(True, st)]
        # unknown value: consult / record variant facts
        key = self.vkey(val)
        inc, exc = st.vfacts.get(key, (None, frozenset()))
        struct_like = fieldpats is not None and not self.is_enum_variant(path)
        if struct_like:
            possible, certain = True, True
        else:
            possible = (inc is None or vname in inc) and vname not in exc
            certain = inc is not None and inc == frozenset([vname])
        res = []
        if possible:
            s_yes = st if certain else st.clone()
            if not certain and not struct_like:
                s_yes.vfacts[key] = (frozenset([vname]), frozenset())
                s_yes.conds.append("%r is %s" % (val, vname))
            cur = [(True, s_yes)]
            if subpats:
                for i, q in enumerate(subpats):
                    item = Term("%s.%d" % (vname, i), (val,), q.get("ty"))
                    if isinstance(val, Term) and val.op == "optmark" and vname == "Some" and i == 0:
                        item = optmark_payload(val)
                    dom = self.mode_domains.get((vname, str(i))) if "LexerMode" in path else None
                    if dom:
                        for _ok, _s in cur:
                            if _ok and item.key() not in _s.vfacts:
                                _s.vfacts[item.key()] = (frozenset(dom), frozenset())
                    nxt = []
                    for ok, s in cur:
                        if not ok:
                            nxt.append((False, s))
                        else:
                            nxt.extend(self.bind(q, item, s, fidx))
                    cur = nxt
            if fieldpats:
                for fp in fieldpats:
                    item = Term("%s.%s" % (vname, fp["name"]), (val,), fp["pat"].get("ty"))
                    nxt = []
                    for ok, s in cur:
                        if not ok:
                            nxt.append((False, s))
                        else:
                            nxt.extend(self.bind(fp["pat"], item, s, fidx))
                    cur = nxt
            res.extend(cur)
        if not certain:
            s_no = st
            if possible and not struct_like:
                ninc = None if inc is None else frozenset(inc - {vname})
                s_no.vfacts[key] = (ninc, frozenset(exc | {vname}))
                s_no.conds.append("%r is not %s" % (val, vname))
            allv = None if struct_like else self.all_variants("::".join(path.split("::")[:-1]))
            f = s_no.vfacts.get(key)
            if ninc_empty(f):
                pass
            elif allv is not None and f is not None and f[0] is None and allv <= f[1]:
                pass
            else:
                res.append((False, s_no))
        return res

    def vkey(self, v):
        """Key under which variant facts of an enum-valued unknown are stored: the name-preserving
        conversions between TokenTypeMacroCallOrStat and TokenType share the facts of their argument."""
        while isinstance(v, Term) and v.op in ("tt_from", "subset_conv") and v.args:
            v = v.args[0]
        return v.key()

    def all_variants(self, enum_path):
        a = self.fx.adts.get(enum_path)
        if a is None or a["kind"] != "enum":
            return None
        return frozenset(v["name"] for v in a["variants"])

    def test_variant_set(self, val, names, sample_path, st):
        """Is the (field-less) enum value `val` one of `names`?  One fork instead of one per name."""
        names = frozenset(names)
        if isinstance(val, LRef):
            val = self.deref(val, st)
        if isinstance(val, Enum):
            return [(val.variant in names, st)]
        key = self.vkey(val)
        inc, exc = st.vfacts.get(key, (None, frozenset()))
        if inc is not None:
            poss = (inc & names) - exc
            certain = inc <= names
        else:
            poss = names - exc
            certain = False
        res = []
        if poss:
            s_yes = st if certain else st.clone()
            s_yes.vfacts[key] = (frozenset(poss), frozenset())
            if not certain:
                s_yes.conds.append("%r in {%s}" % (val, ",".join(sorted(poss))[:80]))
            res.append((True, s_yes))
        if not certain:
            ninc = None if inc is None else frozenset(inc - names)
            nexc = frozenset(exc | names)
            feasible = True
            if ninc is not None and not ninc:
                feasible = False
            if ninc is None:
                allv = self.all_variants("::".join(sample_path.split("::")[:-1]))
                if allv is not None and allv <= nexc:
                    feasible = False
            if feasible:
                st.vfacts[key] = (ninc, nexc)
                st.conds.append("%r not in {%s}" % (val, ",".join(sorted(names))[:80]))
                res.append((False, st))
        return res

    def is_enum_variant(self, path):
        # Option / Result / ControlFlow variants also appear as lang-item struct patterns (`None {}`, `Some { 0: x }`)
        # in the desugaring of `for` and `?`
        if path.split("::")[-1] in ("Some", "None", "Ok", "Err", "Break", "Continue"):
            return True
        parent = "::".join(path.split("::")[:-1])
        a = self.fx.adts.get(parent)
        return a is not None and a["kind"] == "enum"

    def test_variant_ref(self, ref, inner, path, subpats, fieldpats, st, fidx):
        """Pattern match through a mutable reference into the stack: bindings become field references."""
        vname = self.variant_name(path)
        if isinstance(inner, Enum):
            if inner.variant != vname:
                return [(False, st)]
            cur = [(True, st)]
            if subpats:
                for i, q in enumerate(subpats):
                    item = LRef(ref.loc + (i,))
                    nxt = []
                    for ok, s in cur:
                        nxt.extend(self.bind(q, item, s, fidx) if ok else [(False, s)])
                    cur = nxt
            if fieldpats:
                for fp in fieldpats:
                    item = LRef(ref.loc + (fp["name"],))
                    nxt = []
                    for ok, s in cur:
                        nxt.extend(self.bind(fp["pat"], item, s, fidx) if ok else [(False, s)])
                    cur = nxt
            return cur
        # unknown slot content
        s_yes = st.clone()
        cur = [(True, s_yes)]
        if subpats:
            for i, q in enumerate(subpats):
                item = LRef(ref.loc + (i,))
                nxt = []
                for ok, s in cur:
                    nxt.extend(self.bind(q, item, s, fidx) if ok else [(False, s)])
                cur = nxt
        if fieldpats:
            for fp in fieldpats:
                item = LRef(ref.loc + (fp["name"],))
                nxt = []
                for ok, s in cur:
                    nxt.extend(self.bind(fp["pat"], item, s, fidx) if ok else [(False, s)])
                cur = nxt
        return cur + [(False, st)]

    def test_range(self, val, lo, hi, incl, st):
        def cv(x):
            return None if x is None else x.get("v")
        lov, hiv = cv(lo), cv(hi)
        if isinstance(val, Const):
            v = val.v
            try:
                ok = (lov is None or v >= lov) and (hiv is None or (v <= hiv if incl else v < hiv))
            except TypeError:
                ok = False
            return [(ok, st)]
        if isinstance(val, LA) and isinstance(lov, str) and isinstance(hiv, str):
            pred = ("range", lov, hiv, bool(incl))
            return self.test_pred(val, pred, st)
        key = ("range", val.key(), lov, hiv, incl)
        if key in st.bfacts:
            return [(st.bfacts[key], st)]
        s2 = st.clone()
        s2.bfacts[key] = True
        st.bfacts[key] = False
        return [(True, s2), (False, st)]

    # ---- equality / predicates on values ------------------------------------
    def test_eq(self, a, b, st):
        """Decide a == b; returns [(bool, state)] alternatives."""
        if isinstance(a, Const) and isinstance(b, Const):
            return [(a.v == b.v and (a.t == b.t or {a.t, b.t} <= {"int", "byte"}), st)]
        if isinstance(b, LA) and not isinstance(a, LA):
            a, b = b, a
        if isinstance(a, LA) and isinstance(b, Const) and b.t == "char":
            return self.test_pred(a, ("eq", b.v), st)
        if isinstance(a, Enum) and isinstance(b, Enum):
            if a.variant != b.variant and a.path.split("::")[-1] != b.path.split("::")[-1]:
                return [(False, st)]
            if len(a.args) != len(b.args):
                return [(False, st)]
            cur = [(True, st)]
            pairs = list(zip(a.args, b.args)) + [(a.fields[k], b.fields[k]) for k in a.fields if k in b.fields]
            for x, y in pairs:
                nxt = []
                for ok, s in cur:
                    if not ok:
                        nxt.append((False, s))
                    else:
                        nxt.extend(self.test_eq(x, y, s))
                cur = nxt
            return cur
        if isinstance(a, Tup) and isinstance(b, Tup) and len(a.items) == len(b.items):
            cur = [(True, st)]
            for x, y in zip(a.items, b.items):
                nxt = []
                for ok, s in cur:
                    nxt.extend(self.test_eq(x, y, s) if ok else [(False, s)])
                cur = nxt
            return cur
        if a.key() == b.key():
            return [(True, st)]
        # ordered literal-buffer labels: different labels are different positions
        if isinstance(a, Term) and isinstance(b, Term) and a.op == b.op == "litpos":
            return [(False, st)]
        # x == !x is false
        if isinstance(a, Term) and a.op == "not" and a.args and a.args[0].key() == b.key():
            return [(False, st)]
        if isinstance(b, Term) and b.op == "not" and b.args and b.args[0].key() == a.key():
            return [(False, st)]
        # the pending-statement stack is never empty (R-9009 checks the only pop is guarded by len() > 1)
        for x, y in ((a, b), (b, a)):
            if isinstance(x, Term) and x.op == "pending_len" and isinstance(y, Const) and y.v == 0:
                return [(False, st)]
        # enum constant vs unknown with variant facts
        if isinstance(b, Enum) and not b.args and not b.fields and not isinstance(a, (Enum, Const)):
            return self.test_variant(a, b.path, [], None, st, len(st.frames) - 1)
        if isinstance(a, Enum) and not a.args and not a.fields and not isinstance(b, (Enum, Const)):
            return self.test_variant(b, a.path, [], None, st, len(st.frames) - 1)
        if isinstance(a, Enum) and isinstance(b, Const) or isinstance(b, Enum) and isinstance(a, Const):
            return [(False, st)]
        ka, kb = a.key(), b.key()
        key = ("eq",) + tuple(sorted([repr(ka), repr(kb)]))
        if key in st.bfacts:
            return [(st.bfacts[key], st)]
        s2 = st.clone()
        s2.bfacts[key] = True
        s2.conds.append("%r == %r" % (a, b))
        st.bfacts[key] = False
        st.conds.append("%r != %r" % (a, b))
        return [(True, s2), (False, st)]

    def test_pred(self, la, pred, st):
        """Refine the char facts of look-ahead symbol `la` by predicate; returns alternatives."""
        cf = st.cf(la)
        r = cf.decide(pred)
        if r is True or r is False:
            return [(r, st)]
        s_yes = st.clone()
        cy = cf.assume(pred, True)
        cn = cf.assume(pred, False)
        res = []
        if cy is not None:
            s_yes.set_cf(la, cy)
            s_yes.conds.append("%r %s" % (la, C.pred_str(pred, True)))
            res.append((True, s_yes))
        if cn is not None:
            st.set_cf(la, cn)
            st.conds.append("%r %s" % (la, C.pred_str(pred, False)))
            res.append((False, st))
        return res

    def test_bool(self, v, st):
        """Branch on a boolean AV."""
        if isinstance(v, Const) and v.t == "bool":
            return [(bool(v.v), st)]
        key = ("b", v.key())
        if key in st.bfacts:
            return [(st.bfacts[key], st)]
        # negation terms share facts
        if isinstance(v, Term) and v.op == "not" and len(v.args) == 1:
            res = self.test_bool(v.args[0], st)
            return [(not ok, s) for ok, s in res]
        s2 = st.clone()
        s2.bfacts[key] = True
        s2.conds.append("%r" % (v,))
        st.bfacts[key] = False
        st.conds.append("!%r" % (v,))
        return [(True, s2), (False, st)]

    # ---- lvalues ---------------------------------------------------------------
    def deref(self, ref, st):
        loc = ref.loc
        if loc[0] == "stack":
            idx = loc[1]
            slot = self.stack_slot(st, idx)
            v = slot
            for f in loc[2:]:
                v = self.project(v, f)
            return v
        if loc[0] == "local":
            return st.frames[loc[1]].get(loc[2], Term("uninit"))
        if loc[0] == "lasttok":
            return Term("lasttok." + ".".join(str(x) for x in loc[2:]), (Const("int", st.tokens_epoch),))
        if loc[0] == "ckptval":
            v = st.ckpt_val if st.ckpt_val is not None else Term("ckpt@entry")
            for f in loc[1:]:
                v = self.project(v, f)
            return v
        return Term("deref", (ref,))

    def project(self, v, f):
        if isinstance(v, Enum):
            if isinstance(f, int):
                if f < len(v.args):
                    return v.args[f]
            elif f in v.fields:
                return v.fields[f]
        if isinstance(v, Tup) and isinstance(f, int) and f < len(v.items):
            return v.items[f]
        return Term("field:%s" % (f,), (v,))

    def stack_slot(self, st, idx):
        """idx: SLen-relative integer (position = base + idx)."""
        i = idx - st.base
        if 0 <= i < len(st.stack):
            return st.stack[i]
        return Term("stack_below", (Const("int", idx),), "LexerMode")

    def store(self, ref, val, st, node):
        loc = ref.loc
        if loc[0] == "stack":
            idx = loc[1]
            i = idx - st.base
            if 0 <= i < len(st.stack):
                old = st.stack[i]
                new = self.update_path(old, loc[2:], val)
                st.stack[i] = new
                self.emit(st, "mode_update", node, index=idx, top=(i == len(st.stack) - 1), path=loc[2:], value=val, old=old, new=new)
            else:
                self.emit(st, "mode_update", node, index=idx, top=False, path=loc[2:], value=val, old=None, new=None)
            return
        if loc[0] == "local":
            cur = st.frames[loc[1]].get(loc[2])
            if len(loc) > 3 and cur is not None:
                st.frames[loc[1]][loc[2]] = self.update_path(cur, loc[3:], val)
            else:
                st.frames[loc[1]][loc[2]] = val
            return
        if loc[0] == "lasttok":
            self.emit(st, "lasttok_write", node, accessor=loc[1], field=loc[2] if len(loc) > 2 else None, value=val,
                      epoch=st.tokens_epoch)
            return
        if loc[0] == "ckptval":
            # a write into the saved checkpoint (e.g. bumping the stack length it will truncate to)
            if isinstance(st.ckpt_val, Enum):
                old = st.ckpt_val
                st.ckpt_val = self.update_path(old, loc[1:], val)
                self.emit(st, "ckpt", node, op="update", prior=st.ckpt, path=loc[1:], value=val)
            else:
                st.ckpt, st.ckpt_val = "unk" if st.ckpt != "none" else st.ckpt, None
                self.emit(st, "ckpt", node, op="update?", prior=st.ckpt, path=loc[1:], value=val)
            return
        self.note_unanalysed("store through %r" % (loc,), node)

    def update_path(self, v, path, val):
        if not path:
            return val
        f = path[0]
        if isinstance(v, Enum):
            nv = Enum(v.path, list(v.args), dict(v.fields))
            if isinstance(f, int):
                while len(nv.args) <= f:
                    nv.args.append(Term("?"))
                nv.args[f] = self.update_path(nv.args[f], path[1:], val)
            else:
                nv.fields[f] = self.update_path(nv.fields.get(f, Term("?")), path[1:], val)
            return nv
        if isinstance(v, Tup) and isinstance(f, int):
            items = list(v.items)
            items[f] = self.update_path(items[f], path[1:], val)
            return Tup(items)
        return Term("updated", (v, Const("str", str(path)), val))

    # ---- expression evaluation ----------------------------------------------------
    def ev_list(self, nodes, st, fidx):
        """Evaluate nodes left to right; returns list of (values list, state) for 'val' outcomes plus other outs."""
        cur = [([], st)]
        others = []
        for n in nodes:
            nxt = []
            for vals, s in cur:
                for o in self.ev(n, s, fidx):
                    if o.kind == "val":
                        nxt.append((vals + [o.val], o.st))
                    else:
                        others.append(o)
            cur = nxt
        return cur, others

    def ev(self, n, st, fidx):
        self.tick()
        k = n["k"]
        m = getattr(self, "ev_" + k, None)
        if m is None:
            self.note_unanalysed("expr " + k, n)
            return [Out("val", Term("unknown:" + k, (), n.get("ty")), st)]
        return m(n, st, fidx)

    def ev_Lit(self, n, st, fidx):
        v = n.get("v")
        return [Out("val", Const(n.get("lt"), v), st)]

    def ev_DropTemps(self, n, st, fidx):
        return self.ev(n["e"], st, fidx)

    ev_Use = ev_DropTemps
    ev_TypeAscr = ev_DropTemps

    def ev_Cast(self, n, st, fidx):
        res = []
        for o in self.ev(n["e"], st, fidx):
            if o.kind == "val":
                v = o.val
                if isinstance(v, Const) and v.t in ("int", "byte", "bool"):
                    v = Const("int", int(v.v))
                elif isinstance(v, Const) and v.t == "char" and n.get("ty") in ("u32", "u8", "u16", "u64", "usize"):
                    v = Const("int", ord(v.v))
                elif isinstance(v, Enum) and not v.args and not v.fields and n.get("ty") in ("u8", "u16", "u32", "usize", "u64"):
                    d = self.discr(v.path)
                    v = Const("int", d) if d is not None else Term("cast", (v,), n.get("ty"))
                elif isinstance(v, (SLen, LA)):
                    pass
                else:
                    v = Term("cast:" + str(n.get("ty")), (v,), n.get("ty"))
                res.append(Out("val", v, o.st))
            else:
                res.append(o)
        return res

    def discr(self, path):
        parent = "::".join(path.split("::")[:-1])
        a = self.fx.adts.get(parent)
        if a:
            for v in a["variants"]:
                if v["name"] == path.split("::")[-1]:
                    return v["discr"]
        return None

    def ev_AddrOf(self, n, st, fidx):
        e = F.strip(n["e"]) if n["e"].get("k") in ("DropTemps", "Use") else n["e"]
        if n.get("mut") and e.get("k") == "Path" and "local" in e.get("res", {}):
            lid = e["res"]["local"]
            cur = st.frames[fidx].get(lid)
            # &mut local cursor / lexer / refs are passed through as the object itself
            if isinstance(cur, (Obj, LRef)):
                return [Out("val", cur, st)]
            return [Out("val", LRef(("local", fidx, lid)), st)]
        return self.ev(n["e"], st, fidx)

    def ev_Path(self, n, st, fidx):
        r = n["res"]
        if "local" in r:
            v = st.frames[fidx].get(r["local"])
            if v is None:
                # captured variable of an enclosing activation (closures evaluated in their defining frame)
                for fr in reversed(st.frames):
                    if r["local"] in fr:
                        v = fr[r["local"]]
                        break
            if v is None:
                v = Term("local:%s" % r.get("name"), (), n.get("ty"))
            if is_lexer_ty(n.get("ty")):
                v = LEXER
            return [Out("val", v, st)]
        if "def" in r:
            p = r.get("_nd")
            if p is None:
                p = r["_nd"] = F.norm(r["def"])
            dk = r.get("dk", "")
            if dk.startswith("Ctor") or dk in ("Variant",):
                return [Out("val", Enum(canon_path(p)), st)] if "Fn" not in dk else [Out("val", FnRef(p), st)]
            if dk in ("Fn", "AssocFn"):
                return [Out("val", FnRef(p), st)]
            if dk in ("Const", "AssocConst", "Static") or dk.startswith("Static") or dk.startswith("Const") or dk.startswith("AssocConst"):
                return [Out("val", self.const_value(p, n), st)]
            if dk == "SelfCtor":
                return [Out("val", FnRef(p), st)]
            return [Out("val", Term("path:" + p, (), n.get("ty")), st)]
        return [Out("val", Term("path?", (), n.get("ty")), st)]

    def const_value(self, p, n):
        b = self.fx.bodies.get(p)
        if b is not None:
            l = F.lit_of(F.strip(b["hir"]))
            if l is not None:
                return Const(l[0], l[1])
            e = F.strip(b["hir"])
            if e.get("k") == "Cast":
                c = F.const_of(F.strip(e["e"]))
                if c:
                    d = self.discr(c)
                    if d is not None:
                        return Const("int", d)
            if e.get("k") == "Tup":
                items = []
                for x in e["elems"]:
                    xx = F.strip(x)
                    lit = F.lit_of(xx)
                    if lit:
                        items.append(Const(lit[0], lit[1]))
                    elif xx.get("k") == "Cast" and F.const_of(F.strip(xx["e"])):
                        d = self.discr(F.const_of(F.strip(xx["e"])))
                        items.append(Const("int", d) if d is not None else Term("const:" + p))
                    else:
                        items.append(Term("const:" + p))
                return Tup(items)
        return Term("const:" + p, (), n.get("ty"))

    def ev_Tup(self, n, st, fidx):
        cur, others = self.ev_list(n["elems"], st, fidx)
        if not n["elems"]:
            return [Out("val", UNIT, st)]
        return [Out("val", Tup(vals), s) for vals, s in cur] + others

    def ev_Array(self, n, st, fidx):
        cur, others = self.ev_list(n["elems"], st, fidx)
        return [Out("val", Enum("[array]", vals), s) for vals, s in cur] + others

    def ev_Repeat(self, n, st, fidx):
        return [Out("val", Term("repeat", (), n.get("ty")), st)]

    def ev_Struct(self, n, st, fidx):
        names = [f["name"] for f in n["fields"]]
        cur, others = self.ev_list([f["e"] for f in n["fields"]], st, fidx)
        p = canon_path(F.norm(n["res"].get("def", "?")))
        return [Out("val", Enum(p, [], dict(zip(names, vals))), s) for vals, s in cur] + others

    def ev_Closure(self, n, st, fidx):
        return [Out("val", Closure(n, fidx), st)]

    def ev_ConstBlock(self, n, st, fidx):
        return self.ev(n["body"], st, fidx)

    def ev_Field(self, n, st, fidx):
        res = []
        for o in self.ev(n["base"], st, fidx):
            if o.kind != "val":
                res.append(o)
                continue
            res.append(Out("val", self.field_of(o.val, n["name"], o.st, n), o.st))
        return res

    def field_of(self, base, name, st, n):
        if base is LEXER or (isinstance(base, Obj) and base.kind == "lexer"):
            if name == "cursor":
                return Obj("cursor", "main")
            if name in ("mode_stack", "errors", "checkpoint", "pending_stat_stack", "buffer", "source", "last_state"):
                return Obj(name)
            if name == "macro_nesting_level":
                return st.nesting
            if name.startswith("cur_token"):
                return st.cur_token.get(name, Term(name + "@entry", (), n.get("ty")))
            if name == "source_len":
                return Term("source_len", (), "u32")
            return st.fields.get(name, Term("lexer." + name, (), n.get("ty")))
        if isinstance(base, LRef):
            return LRef(base.loc + ((int(name) if name.isdigit() else name),))
        if isinstance(base, Enum):
            if name.isdigit() and int(name) < len(base.args):
                return base.args[int(name)]
            if name in base.fields:
                return base.fields[name]
        if isinstance(base, Tup) and name.isdigit() and int(name) < len(base.items):
            return base.items[int(name)]
        return Term("field:" + name, (base,), n.get("ty"))

    def ev_Index(self, n, st, fidx):
        cur, others = self.ev_list([n["base"], n["idx"]], st, fidx)
        res = list(others)
        for (b, i), s in cur:
            self.emit(s, "index", n, base=b, idx=i)
            res.append(Out("val", Term("index", (b, i), n.get("ty")), s))
        return res

    def ev_Unary(self, n, st, fidx):
        res = []
        for o in self.ev(n["e"], st, fidx):
            if o.kind != "val":
                res.append(o)
                continue
            v = o.val
            op = n["op"]
            if op == "Not":
                if isinstance(v, Const) and v.t == "bool":
                    v = cbool(not v.v)
                elif isinstance(v, Term) and v.op == "not":
                    v = v.args[0]
                else:
                    v = Term("not", (v,), "bool")
            elif op == "Deref":
                if isinstance(v, LRef):
                    v = self.deref(v, o.st)
            elif op == "Neg":
                if isinstance(v, Const) and v.t == "int":
                    v = Const("int", -v.v)
                else:
                    v = Term("neg", (v,), n.get("ty"))
            res.append(Out("val", v, o.st))
        return res

    def ev_Binary(self, n, st, fidx):
        op = n["op"]
        if op in ("And", "Or"):
            res = []
            for o in self.ev(n["l"], st, fidx):
                if o.kind != "val":
                    res.append(o)
                    continue
                for ok, s in self.test_bool(o.val, o.st):
                    if (op == "And" and not ok) or (op == "Or" and ok):
                        res.append(Out("val", cbool(ok), s))
                    else:
                        res.extend(self.ev(n["r"], s, fidx))
            return res
        cur, others = self.ev_list([n["l"], n["r"]], st, fidx)
        res = list(others)
        impl = self.op_impl(n, op)
        for (a, b), s in cur:
            if impl is not None and isinstance(a, (Enum, Term)) and not isinstance(a, SLen):
                res.extend(self.call_local(impl, [a, b], s, n))
            else:
                res.extend(self.binop(op, a, b, s, n))
        return res

    def op_impl(self, n, op):
        """Crate-local `impl Add/Sub/...<Rhs> for T` chosen by type-check for this binary expression."""
        d = n.get("def")
        if not d or op not in ("Add", "Sub", "Mul", "Div", "Rem"):
            return None
        lt = F.norm(n["l"].get("ty") or "")
        rt = n["r"].get("ty") or ""
        tr = {"Add": "std::ops::Add", "Sub": "std::ops::Sub", "Mul": "std::ops::Mul", "Div": "std::ops::Div",
              "Rem": "std::ops::Rem"}[op]
        name = "<%s as %s<%s>>::%s" % (lt, tr, rt, op.lower())
        if name in self.fx.bodies:
            return name
        return None

    def binop(self, op, a, b, st, n):
        if isinstance(a, LRef):
            a = self.deref(a, st)
        if isinstance(b, LRef):
            b = self.deref(b, st)
        if op in ("Eq", "Ne"):
            outs = []
            for ok, s in self.test_eq(a, b, st):
                outs.append(Out("val", cbool(ok if op == "Eq" else not ok), s))
            return outs
        if isinstance(a, Const) and isinstance(b, Const) and a.t in ("int", "byte", "char") and b.t in ("int", "byte", "char"):
            x, y = a.v, b.v
            try:
                r = {"Add": lambda: x + y, "Sub": lambda: x - y, "Mul": lambda: x * y, "Lt": lambda: x < y,
                     "Le": lambda: x <= y, "Gt": lambda: x > y, "Ge": lambda: x >= y, "BitAnd": lambda: x & y,
                     "BitOr": lambda: x | y, "Shl": lambda: x << y, "Shr": lambda: x >> y,
                     "Div": lambda: x // y if y else None, "Rem": lambda: x % y if y else None}.get(op)
                if r is not None:
                    v = r()
                    if v is not None:
                        if isinstance(v, bool):
                            return [Out("val", cbool(v), st)]
                        return [Out("val", Const("int", v), st)]
            except TypeError:
                pass
        if op in ("Le", "Lt", "Ge", "Gt"):
            from . import lea_prims
            sa, sb = lea_prims.snap_of(a), lea_prims.snap_of(b)
            if sa and sb and sa[0] == sb[0] and sa[1] == sb[1]:
                # cursor snapshots are monotone in the position label
                x, y = (sa, sb) if op in ("Le", "Lt") else (sb, sa)
                # x (<|<=) y ?
                if x[2] <= y[2] and x[3] <= y[3] and op in ("Le", "Ge"):
                    return [Out("val", TRUE, st)]
                if x[2] <= y[2] and op in ("Le", "Ge") and x[3] == 0 and y[3] < 0:
                    mc = st.fields.get("_minc", {})
                    if x[2] in mc and y[2] in mc and mc[y[2]] - mc[x[2]] >= -y[3]:
                        # at least -delta one-byte-or-longer chars were consumed between the two snapshots
                        return [Out("val", TRUE, st)]
                if x[2] > y[2] and x[3] >= y[3] and op in ("Lt", "Gt"):
                    return [Out("val", FALSE, st)]
        if op in ("Gt", "Lt", "Ge", "Le") and n is not None:
            x, y, o2 = a, b, op
            if isinstance(a, Const):
                x, y = b, a
                o2 = {"Gt": "Lt", "Lt": "Gt", "Ge": "Le", "Le": "Ge"}[op]
            lty = (n["l"].get("ty") if x is a else n["r"].get("ty")) or ""
            if isinstance(y, Const) and y.v == 0 and lty in ("u8", "u16", "u32", "u64", "usize") and not isinstance(x, Const):
                if o2 == "Ge":
                    return [Out("val", TRUE, st)]
                if o2 == "Lt":
                    return [Out("val", FALSE, st)]
                key = ("eq",) + tuple(sorted([repr(x.key()), repr(y.key())]))
                f = st.bfacts.get(key)
                if f is not None:
                    # unsigned: x > 0  <=>  x != 0 ; x <= 0 <=> x == 0
                    return [Out("val", cbool((not f) if o2 == "Gt" else f), st)]
        if isinstance(a, SLen) and isinstance(b, Const) and b.t == "int":
            if op == "Sub":
                return [Out("val", SLen(a.d - b.v), st)]
            if op == "Add":
                return [Out("val", SLen(a.d + b.v), st)]
        if n is not None and op in ("Add", "Sub", "Mul", "Div", "Rem", "Shl", "Shr"):
            self.emit(st, "arith", n, op=op, a=a, b=b, ty=n.get("ty"))
        ty = "bool" if op in ("Lt", "Le", "Gt", "Ge") else (n.get("ty") if n else None)
        return [Out("val", Term("bin:" + op, (a, b), ty), st)]

    def ev_Assign(self, n, st, fidx):
        res = []
        for o in self.ev(n["r"], st, fidx):
            if o.kind != "val":
                res.append(o)
                continue
            for o2 in self.assign_to(n["l"], o.val, o.st, fidx, n):
                res.append(o2)
        return res

    def assign_to(self, lnode, val, st, fidx, n):
        l = lnode
        while l.get("k") in ("DropTemps", "Use"):
            l = l["e"]
        k = l.get("k")
        if k == "Path" and "local" in l.get("res", {}):
            lid = l["res"]["local"]
            # find frame owning it
            fr = st.frames[fidx]
            if lid not in fr:
                for f2 in reversed(st.frames):
                    if lid in f2:
                        fr = f2
                        break
            fr[lid] = val
            return [Out("val", UNIT, st)]
        if k == "Unary" and l.get("op") == "Deref":
            res = []
            for o in self.ev(l["e"], st, fidx):
                if o.kind != "val":
                    res.append(o)
                    continue
                if isinstance(o.val, LRef):
                    self.store(o.val, val, o.st, n)
                elif self.is_iter_item(o.val):
                    # `*dst = v` where dst is an item of an iterator (`for dst in buf.iter_mut()`): a store into
                    # local memory LEA does not model; lexer state is only reachable through LRef / Obj values
                    self.emit(o.st, "opaque_store", n, target=o.val, value=val)
                else:
                    self.note_unanalysed("assignment through non-reference %r" % (o.val,), n)
                res.append(Out("val", UNIT, o.st))
            return res
        if k == "Field":
            res = []
            for o in self.ev(l["base"], st, fidx):
                if o.kind != "val":
                    res.append(o)
                    continue
                base = o.val
                name = l["name"]
                s = o.st
                if base is LEXER or (isinstance(base, Obj) and base.kind == "lexer"):
                    self.assign_lexer_field(name, val, s, n)
                elif isinstance(base, LRef):
                    self.store(LRef(base.loc + ((int(name) if name.isdigit() else name),)), val, s, n)
                elif isinstance(base, Obj) and base.kind == "cursor":
                    self.emit(s, "cursor_field_write", n, cursor=base.id, field=name, value=val)
                else:
                    # field of a local aggregate
                    bl = l["base"]
                    while bl.get("k") in ("DropTemps", "Use"):
                        bl = bl["e"]
                    if bl.get("k") == "Path" and "local" in bl.get("res", {}):
                        lid = bl["res"]["local"]
                        cur = s.frames[fidx].get(lid)
                        if cur is not None:
                            s.frames[fidx][lid] = self.update_path(cur, (int(name) if name.isdigit() else name,), val)
                    else:
                        self.note_unanalysed("field assignment", n)
                res.append(Out("val", UNIT, s))
            return res
        if k == "Index":
            cur, others = self.ev_list([l["base"], l["idx"]], st, fidx)
            res = list(others)
            for (b, i), s in cur:
                self.emit(s, "index_store", n, base=b, idx=i, value=val)
                res.append(Out("val", UNIT, s))
            return res
        self.note_unanalysed("assignment target " + str(k), n)
        return [Out("val", UNIT, st)]

    def assign_lexer_field(self, name, val, st, n):
        if name == "checkpoint":
            old = st.ckpt
            if isinstance(val, Enum) and val.variant == "None":
                st.ckpt, st.ckpt_val = "none", None
                self.emit(st, "ckpt", n, op="clear", prior=old)
            elif isinstance(val, Enum) and val.variant == "Some":
                st.ckpt, st.ckpt_val = "some", val.args[0]
                self.emit(st, "ckpt", n, op="set", prior=old, value=val.args[0])
            else:
                st.ckpt, st.ckpt_val = "unk", None
                self.emit(st, "ckpt", n, op="assign?", prior=old)
            return
        if name == "cursor":
            self.assign_main_cursor(val, st, n)
            return
        if name.startswith("cur_token"):
            st.cur_token[name] = val
            self.emit(st, "cur_token_write", n, field=name, value=val)
            return
        if name == "macro_nesting_level":
            self.emit(st, "nesting", n, old=st.nesting, new=val)
            st.nesting = val
            return
        if name == "last_state":
            self.emit(st, "debug_field_write", n, field=name)
            return
        if name == "mode_stack":
            st.stack_ok = False
            self.emit(st, "stack_replaced", n)
            return
        st.fields[name] = val
        self.emit(st, "field_write", n, field=name, value=val)

    def assign_main_cursor(self, val, st, n):
        main = st.cursors["main"]
        if isinstance(val, Obj) and val.kind == "cursor" and val.id in st.cursors:
            src = st.cursors[val.id]
            # restoring a snapshot: the main cursor continues from the snapshot's position
            self.emit(st, "cursor_restore", n, snapshot=val.id, origin=src.origin, from_pos=main.pos, to_pos=src.pos, exact=src.exact)
            self.alias_cursor(st, "main", val.id)
        else:
            self.emit(st, "cursor_restore", n, snapshot=None, origin=None, from_pos=main.pos, to_pos=None, exact=False)
            self.jump(st, main)
        st.lines_epoch += 1

    def alias_cursor(self, st, dst, src):
        """dst cursor := copy of src cursor (same stream position => same look-ahead symbols)."""
        s = st.cursors[src]
        # LA symbols are keyed by (stream, abspos); a clone shares the stream id of its origin
        st.cursors[dst] = Cursor(dst, s.pos, s.exact, s.origin)
        st.cursors[dst].id = dst
        # share char facts: map keys of src stream to dst stream
        sid, did = self.stream_of(st, src), dst
        st.fields.setdefault("_stream", {})
        stream = dict(st.fields["_stream"])
        stream[dst] = stream.get(src, src)
        st.fields["_stream"] = stream

    def stream_of(self, st, cid):
        return st.fields.get("_stream", {}).get(cid, cid)

    def ev_AssignOp(self, n, st, fidx):
        res = []
        cur, others = self.ev_list([n["l"], n["r"]], st, fidx)
        res.extend(others)
        for (a, b), s in cur:
            op = n["op"].replace("Assign", "")
            for o in self.binop(op, a, b, s, n):
                if o.kind != "val":
                    res.append(o)
                    continue
                res.extend(self.assign_to(n["l"], o.val, o.st, fidx, n))
        return res

    def ev_BlockExpr(self, n, st, fidx):
        outs = self.ev_block(n["b"], st, fidx)
        if n.get("label") is None and not n["b"].get("brk"):
            return outs
        res = []
        for o in outs:
            if o.kind == "brk" and o.target == n.get("id"):
                res.append(Out("val", o.val if o.val is not None else UNIT, o.st))
            else:
                res.append(o)
        return res

    def ev_block(self, b, st, fidx):
        cur = [Out("val", UNIT, st)]
        for stmt in b["stmts"]:
            nxt = []
            for o in cur:
                if o.kind != "val":
                    nxt.append(o)
                    continue
                nxt.extend(self.ev_stmt(stmt, o.st, fidx))
            cur = nxt
            if len(cur) > self.budget:
                raise Budget("too many paths in %s" % (self.fn_stack[-1] if self.fn_stack else "?"))
        if b.get("expr") is not None:
            nxt = []
            for o in cur:
                if o.kind != "val":
                    nxt.append(o)
                    continue
                nxt.extend(self.ev(b["expr"], o.st, fidx))
            cur = nxt
        else:
            cur = [Out("val", UNIT, o.st) if o.kind == "val" else o for o in cur]
        return cur

    def ev_stmt(self, s, st, fidx):
        k = s["k"]
        if k in ("Semi", "Expr"):
            outs = self.ev(s["e"], st, fidx)
            return [Out("val", UNIT, o.st) if o.kind == "val" else o for o in outs]
        if k == "Item":
            return [Out("val", UNIT, st)]
        if k == "Let":
            if s.get("init") is None:
                return [Out("val", UNIT, st)]
            res = []
            for o in self.ev(s["init"], st, fidx):
                if o.kind != "val":
                    res.append(o)
                    continue
                alts = self.bind(s["pat"], o.val, o.st, fidx)
                for ok, s2 in alts:
                    if ok:
                        res.append(Out("val", UNIT, s2))
                    elif s.get("els") is not None:
                        res.extend(self.ev_block(s["els"], s2, fidx))
                    # irrefutable let without else: non-match is impossible
            return res
        self.note_unanalysed("stmt " + k, s)
        return [Out("val", UNIT, st)]

    def ev_If(self, n, st, fidx):
        res = []
        c = n["cond"]
        while c.get("k") in ("DropTemps", "Use"):
            c = c["e"]
        # debug_assert!/assert!: `if !cond { panic }` from the assert expansion
        for ok, s, other in self.ev_cond(c, st, fidx):
            if other is not None:
                res.append(other)
                continue
            if ok:
                res.extend(self.ev(n["then"], s, fidx))
            elif n.get("else") is not None:
                res.extend(self.ev(n["else"], s, fidx))
            else:
                res.append(Out("val", UNIT, s))
        return res

    def ev_cond(self, c, st, fidx):
        """Evaluate a condition (possibly `let` chains). Yields (bool, state, other_out)."""
        k = c.get("k")
        if k == "LetCond":
            res = []
            for o in self.ev(c["init"], st, fidx):
                if o.kind != "val":
                    res.append((False, None, o))
                    continue
                for ok, s in self.bind(c["pat"], o.val, o.st, fidx):
                    res.append((ok, s, None))
            return res
        if k == "Binary" and c.get("op") == "And":
            res = []
            for ok, s, other in self.ev_cond(strip_dt(c["l"]), st, fidx):
                if other is not None:
                    res.append((False, None, other))
                elif not ok:
                    res.append((False, s, None))
                else:
                    res.extend(self.ev_cond(strip_dt(c["r"]), s, fidx))
            return res
        res = []
        for o in self.ev(c, st, fidx):
            if o.kind != "val":
                res.append((False, None, o))
                continue
            for ok, s in self.test_bool(o.val, o.st):
                res.append((ok, s, None))
        return res

    def ev_LetCond(self, n, st, fidx):
        res = []
        for ok, s, other in self.ev_cond(n, st, fidx):
            if other is not None:
                res.append(other)
            else:
                res.append(Out("val", cbool(ok), s))
        return res

    def ev_Match(self, n, st, fidx):
        res = []
        for o in self.ev(n["scrut"], st, fidx):
            if o.kind != "val":
                res.append(o)
                continue
            pending = [o.st]
            for ai, arm in enumerate(n["arms"]):
                nxt = []
                for s in pending:
                    alts = self.bind(arm["pat"], o.val, s, fidx)
                    for ok, s2 in alts:
                        if not ok:
                            nxt.append(s2)
                            continue
                        if arm.get("guard") is not None:
                            for gok, s3, other in self.ev_cond(strip_dt(arm["guard"]), s2, fidx):
                                if other is not None:
                                    res.append(other)
                                elif gok:
                                    self.emit(s3, "arm", arm["body"], match=n, arm=ai, guard=True)
                                    res.extend(self.ev(arm["body"], s3, fidx))
                                else:
                                    nxt.append(s3)
                        else:
                            self.emit(s2, "arm", arm["body"], match=n, arm=ai, guard=False)
                            res.extend(self.ev(arm["body"], s2, fidx))
                pending = nxt
                if not pending:
                    break
            # pending states matched no arm: impossible for exhaustive matches (refinement residue)
        return res

    def ev_Ret(self, n, st, fidx):
        if n.get("val") is None:
            return [Out("ret", UNIT, st)]
        res = []
        for o in self.ev(n["val"], st, fidx):
            if o.kind == "val":
                res.append(Out("ret", o.val, o.st))
            else:
                res.append(o)
        return res

    def ev_Break(self, n, st, fidx):
        if n.get("val") is None:
            return [Out("brk", None, st, n.get("target"))]
        res = []
        for o in self.ev(n["val"], st, fidx):
            if o.kind == "val":
                res.append(Out("brk", o.val, o.st, n.get("target")))
            else:
                res.append(o)
        return res

    def ev_Continue(self, n, st, fidx):
        return [Out("cont", None, st, n.get("target"))]

    # ---- loops -----------------------------------------------------------------
    def assigned_in(self, node):
        key = id(node)
        if key in self.loop_assigned_cache:
            return self.loop_assigned_cache[key]
        ids = set()
        consumes = False
        for x, par in F.walk(node):
            k = x.get("k")
            if k in ("Assign", "AssignOp"):
                l = x["l"]
                while l.get("k") in ("DropTemps", "Use", "Field", "Index") or (l.get("k") == "Unary" and l.get("op") == "Deref"):
                    l = l.get("e") or l.get("base")
                if l.get("k") == "Path" and "local" in l.get("res", {}):
                    ids.add(l["res"]["local"])
            elif k == "AddrOf" and x.get("mut"):
                e = F.strip(x)
                if e.get("k") == "Path" and "local" in e.get("res", {}):
                    ids.add(e["res"]["local"])
            elif k == "MethodCall":
                r = x["recv"]
                while r.get("k") in ("DropTemps", "Use", "AddrOf"):
                    r = r["e"]
                if r.get("k") == "Path" and "local" in r.get("res", {}):
                    d = x.get("def") or ""
                    if any(d.endswith(m) for m in ("::advance", "::advance_by", "::eat_while", "::eat_char", "::next",
                                                   "::push", "::pop", "::retain", "::extend", "::insert", "::truncate",
                                                   "::clear", "::push_str", "::next_back", "::nth")):
                        ids.add(r["res"]["local"])
            elif k == "Closure":
                pass
        self.loop_assigned_cache[key] = ids
        return ids

    def counted_advance(self, n, st, fidx):
        """Loop summary: `for _ in 0..k { <cursor>.advance(); }` has the effect of `<cursor>.advance_by(k)`
        (both stop at the end of the input).  Returns the outcomes of that call, or None if `n` is not
        exactly this idiom (unused loop variable, range from 0, a body that is the single advance)."""
        if n.get("src") != "ForLoop":
            return None
        stmts = n["body"].get("stmts") or []
        if len(stmts) != 1 or n["body"].get("expr") is not None:
            return None
        m = stmts[0].get("e") or {}
        if m.get("k") != "Match" or m.get("src") != "ForLoopDesugar" or len(m.get("arms", [])) != 2:
            return None
        sc = m["scrut"]
        if not (sc.get("k") == "Call" and sc.get("def") == "std::iter::Iterator::next" and len(sc["args"]) == 1):
            return None
        a0 = strip_dt(sc["args"][0])
        if a0.get("k") != "AddrOf" or strip_dt(a0["e"]).get("k") != "Path":
            return None
        loc = strip_dt(a0["e"])["res"].get("local")
        fr = st.frames[fidx] if fidx < len(st.frames) else {}
        it = fr.get(loc)
        if not (isinstance(it, Term) and it.op in ("iter_rest", "iter_nonempty") and it.args
                and isinstance(it.args[0], Term) and it.args[0].op == "range"):
            return None
        lo, hi = it.args[0].args
        if not (isinstance(lo, Const) and lo.v == 0):
            return None
        some_arm = [a for a in m["arms"] if (a["pat"].get("res") or {}).get("def", "").endswith("Some")]
        if len(some_arm) != 1 or some_arm[0].get("guard") is not None:
            return None
        flds = some_arm[0]["pat"].get("fields") or []
        if len(flds) != 1 or flds[0]["pat"].get("k") != "Wild":
            return None
        body = strip_dt(some_arm[0]["body"])
        if body.get("k") == "BlockExpr":
            b = body["b"]
            if b.get("expr") is not None or len(b.get("stmts") or []) != 1:
                return None
            s0 = b["stmts"][0]
            if s0.get("k") not in ("Semi", "Expr"):
                return None
            body = strip_dt(s0["e"])
        if not (body.get("k") == "MethodCall" and F.norm(body.get("def") or "") == "cursor::Cursor::advance"
                and not body.get("args")):
            return None
        from . import lea_prims
        res = []
        for o in self.ev(body["recv"], st, fidx):
            if o.kind != "val":
                res.append(o)
                continue
            r = lea_prims.c_advance_by(self, "cursor::Cursor::advance_by", [o.val, hi], o.st, body, fidx)
            res.extend(r)
        return res

    def ev_Loop(self, n, st, fidx):
        res = []
        lid = n.get("id")
        if not self.in_probe:
            summ = self.counted_advance(n, st, fidx)
            if summ is not None:
                return summ
        l0 = len(st.events)
        self.emit(st, "loop_enter", n, loop=lid)
        entry_main_pos = st.cursors["main"].pos

        def classify(outs, back):
            for o in outs:
                if o.kind == "brk" and o.target == lid:
                    self.emit(o.st, "loop_exit", n, loop=lid)
                    res.append(Out("val", o.val if o.val is not None else UNIT, o.st))
                elif o.kind == "val" or (o.kind == "cont" and o.target == lid):
                    back.append(o.st)
                else:
                    res.append(o)

        entry_pos = {cid: c.pos for cid, c in st.cursors.items()}
        st_entry_frame = dict(st.frames[fidx]) if fidx < len(st.frames) else {}
        back1 = []
        probing = self.in_probe and self.probe_loop is None
        if probing:
            self.probe_loop = lid
            st.events[-1].d["frame"] = dict(st.frames[fidx]) if fidx < len(st.frames) else {}
        classify(self.ev_block(n["body"], st, fidx), back1)
        if probing:
            # the probe only needs the first iteration of the outermost loop
            for s in back1:
                self.emit(s, "loop_back", n, loop=lid, iteration=1, progressed=s.cursors["main"].pos > entry_main_pos,
                          frame=dict(s.frames[fidx]) if fidx < len(s.frames) else {})
                res.append(Out("loopback", None, s))
            return res
        if len(back1) == 1 and len(res) == 0 and not self.in_probe:
            # deterministic so far (one successor, no exit): keep executing exactly instead of widening, e.g. a
            # `for x in [a, b, c]` over a literal array.  Falls back to peel + widen as soon as an iteration forks.
            cur = back1[0]
            exact_res = []
            done = False
            for _k in range(24):
                backs = []
                outs_k = self.ev_block(n["body"], cur.clone(), fidx)
                tmp = []
                for o in outs_k:
                    if o.kind == "brk" and o.target == lid:
                        self.emit(o.st, "loop_exit", n, loop=lid)
                        tmp.append(Out("val", o.val if o.val is not None else UNIT, o.st))
                    elif o.kind == "val" or (o.kind == "cont" and o.target == lid):
                        backs.append(o.st)
                    else:
                        tmp.append(o)
                if len(backs) == 1 and not tmp:
                    cur = backs[0]
                    continue
                if not backs:
                    exact_res = tmp
                    done = True
                break
            if done:
                return exact_res
        if back1:
            assigned = self.assigned_in(n["body"])
            # cursors that moved during the first iteration on some path are advanced by an unknown amount
            moved = set()
            for s in back1:
                for cid, c in s.cursors.items():
                    if entry_pos.get(cid) != c.pos:
                        moved.add(cid)
            for s in back1:
                self.emit(s, "loop_back", n, loop=lid, iteration=1, progressed=s.cursors["main"].pos > entry_main_pos,
                          frame=dict(s.frames[fidx]) if fidx < len(s.frames) else {})
            # locals assigned in the body but unchanged at every back-edge (e.g. a flag set right before
            # `break`) keep their value; found by iterating to a fixpoint over the generic iteration
            entry_vals = dict(st_entry_frame)
            changed = set()

            def note_changed(states):
                new = set()
                for s in states:
                    fr = s.frames[fidx] if fidx < len(s.frames) else {}
                    for lid2 in assigned:
                        if lid2 in changed:
                            continue
                        a, b = entry_vals.get(lid2), fr.get(lid2)
                        if (a is None) != (b is None) or (a is not None and a.key() != b.key()):
                            new.add(lid2)
                return new
            changed |= note_changed(back1)
            if self.exact_second and not self.in_probe and (self.loop_cuts_literals(n) or self.mark_locals(n)):
                # exact second iteration: paths that leave the loop right after one full iteration keep all the
                # facts of that iteration (its back-edges are covered by the widened generic iteration below)
                for s in back1:
                    outs2 = self.ev_block(n["body"], s.clone(), fidx)
                    for o2 in outs2:
                        if o2.kind == "brk" and o2.target == lid:
                            self.emit(o2.st, "loop_exit", n, loop=lid)
                            res.append(Out("val", o2.val if o2.val is not None else UNIT, o2.st))
                        elif o2.kind == "val" or (o2.kind == "cont" and o2.target == lid):
                            pass
                        else:
                            res.append(o2)
            # loop-carried Option<mark>: optimistic invariant "Some(mark) => >= 1 char consumed since the mark",
            # verified at every back-edge (first and generic iteration); dropped for a local that breaks it
            marks = self.mark_locals(n)
            nogap = set()

            def gap_broken(states):
                bad = set()
                for s in states:
                    fr = s.frames[fidx] if fidx < len(s.frames) else {}
                    for lid2 in marks:
                        if lid2 not in nogap and lid2 in fr and not self.mark_gap_ok(s, fr[lid2]):
                            bad.add(lid2)
                return bad
            nogap |= gap_broken(back1)
            res_before = len(res)
            for _round in range(4):
                del res[res_before:]
                seen = set()
                more = set()
                for s in back1:
                    w = self.widen(s, changed, n, fidx, moved, nogap)
                    sig = self.widen_sig(w, fidx, assigned)
                    if sig in seen:
                        continue
                    seen.add(sig)
                    pos0 = {cid: c.pos for cid, c in w.cursors.items()}
                    outs = self.ev_block(n["body"], w, fidx)
                    b2 = []
                    classify(outs, b2)
                    for o2 in res[res_before:]:
                        for cid, c in o2.st.cursors.items():
                            if cid in pos0 and pos0[cid] != c.pos and cid not in moved:
                                more.add(cid)
                    for s2 in b2:
                        for cid, c in s2.cursors.items():
                            if cid in pos0 and pos0[cid] != c.pos and cid not in moved:
                                more.add(cid)
                        self.emit(s2, "loop_back", n, loop=lid, iteration=2, progressed=s2.cursors["main"].pos > pos0["main"],
                                  frame=dict(s2.frames[fidx]) if fidx < len(s2.frames) else {})
                        # generic iteration reaching the back-edge again: covered by the widened state, but the
                        # path itself is kept (as a truncated path) so that per-iteration rules see its events
                        res.append(Out("loopback", None, s2))
                more_locals = note_changed([o2.st for o2 in res[res_before:] if o2.kind == "loopback"])
                more_gap = gap_broken([o2.st for o2 in res[res_before:] if o2.kind == "loopback"])
                nogap |= more_gap
                if not more and not more_locals and not more_gap:
                    break
                # a cursor / local that only starts changing in later iterations: widen it too and redo
                moved |= more
                changed |= more_locals
        if len(res) > self.prune_min and self.prune:
            self.sink(res, l0, "loop", self.fn_stack[-1] if self.fn_stack else "?")
            res = self.prune_outs(res, l0, fidx, with_frame=True)
        return res

    def mark_gap_ok(self, s, v):
        """Is a loop-carried Option<mark> value None, or a mark with at least one char consumed since?"""
        from . import lea_prims
        if v.key() == NONE.key():
            return True
        mc = s.fields.get("_minc", {})
        cur = s.cursors["main"].pos
        q = None
        if isinstance(v, Term) and v.op == "optmark":
            q = v.args[0].v
        elif isinstance(v, Enum) and v.variant == "Some" and v.args and isinstance(v.args[0], Tup) and v.args[0].items:
            sn = lea_prims.snap_of(v.args[0].items[0])
            if sn is not None and sn[1] == "main" and sn[3] == 0:
                q = sn[2]
        return q is not None and q in mc and cur in mc and mc[cur] - mc[q] >= 1

    def is_iter_item(self, v):
        """A value obtained from an iterator's `next()` (possibly projected out of a tuple item)."""
        for _ in range(6):
            if not isinstance(v, Term):
                return False
            if v.op.startswith("next#") or v.op == "item_of":
                return True
            if (v.op.startswith("Some.") or v.op.startswith("proj") or v.op.startswith("field")) and v.args:
                v = v.args[0]
                continue
            return False
        return False

    def loop_cuts_literals(self, loop):
        """Does the loop body cut literal sections (scanners that unquote text)?  Only those get an exact second
        iteration: the payload decision compares literal-buffer positions that widening cannot keep."""
        key = ("cuts", id(loop))
        if key not in self.loop_assigned_cache:
            hit = False
            for x, _ in F.walk(loop["body"]):
                if x.get("k") in ("Call", "MethodCall"):
                    d = F.norm(x.get("def") or "")
                    if d.endswith("add_string_literal_from_src") or d.endswith("::add_string_literal"):
                        hit = True
                        break
            self.loop_assigned_cache[key] = hit
        return self.loop_assigned_cache[key]

    def widen(self, s, assigned, n, fidx, moved=None, nogap=()):
        w = s.clone()
        # locals assigned syntactically in the loop body live in the current frame; closures that the body
        # may call (closure values held in any frame) assign locals of their defining frame
        per_frame = {fidx: set(assigned)}
        for fr in w.frames:
            for v in fr.values():
                if isinstance(v, Closure):
                    per_frame.setdefault(v.frame, set()).update(self.assigned_in(v.node["body"]))
        for fi, fr in enumerate(w.frames):
            ids = per_frame.get(fi, ())
            for lid in list(fr.keys()):
                if lid in ids:
                    v = fr[lid]
                    if isinstance(v, Obj) and v.kind == "cursor":
                        pass
                    elif isinstance(v, (Obj, Closure, FnRef)):
                        pass
                    elif isinstance(v, Term) and v.op in ("iter_nonempty", "iter_rest"):
                        # an iterator over the same collection, somewhere further along
                        fr[lid] = Term("iter_rest", v.args, v.ty)
                    elif isinstance(v, Enum) and v.path == "[iter_items]":
                        fr[lid] = w.sym("loopvar", None)
                    elif lid in self.mark_locals(n) and (v.key() == NONE.key() or (isinstance(v, Enum) and v.variant == "Some") or (isinstance(v, Term) and v.op == "optmark")):
                        # Option<mark> only ever set to None / Some(mark_token_start()) / kept: later it is
                        # None or an earlier mark
                        j = w.fields.get("_jump", 0) + 1
                        p = j * 100000 - 50000
                        mc = dict(w.fields.get("_minc", {}))
                        mc[p] = mc.get(w.cursors["main"].pos, 0) - (0 if lid in nogap else 1)
                        w.fields["_minc"] = mc
                        fr[lid] = Term("optmark", (Const("int", p),), None)
                    elif lid in self.snapshot_locals(n) and self.resnap(v, w) is not None:
                        # the local only ever receives snapshots of the current cursor position inside the
                        # loop: in later iterations it holds *some earlier* snapshot
                        fr[lid] = self.resnap(v, w)
                    else:
                        fr[lid] = w.sym("loopvar", None)
        for cid in sorted(moved if moved is not None else ["main"]):
            if cid in w.cursors:
                old_pos = w.cursors[cid].pos
                self.jump(w, w.cursors[cid])
                if cid == "main":
                    # a token that was started exactly at the back-edge position still starts "here"
                    from . import lea_prims
                    new_pos = w.cursors[cid].pos
                    for fld, v in list(w.cur_token.items()):
                        sn = lea_prims.snap_of(v)
                        if sn is not None and sn[2] == old_pos and sn[3] == 0 and isinstance(v, Enum):
                            if sn[0] == "byte":
                                w.cur_token[fld] = Enum(v.path, [Term("bin:Sub", (Term("source_len", (), "u32"), Term("remaining_len", (Const("str", sn[1]), Const("int", new_pos)), "u32")), "u32")])
                            else:
                                w.cur_token[fld] = Enum(v.path, [Term("char_offset", (Const("str", sn[1]), Const("int", new_pos)), "u32")])
        self.emit(w, "loop_widen", n, loop=n.get("id"))
        return w

    def snapshot_locals(self, loop):
        """Locals that, inside this loop, are only assigned `self.cur_byte_offset()` / `cur_char_offset()`."""
        key = ("snap", id(loop))
        if key in self.loop_assigned_cache:
            return self.loop_assigned_cache[key]
        good, bad = set(), set()
        for x, par in F.walk(loop["body"]):
            if x.get("k") in ("Assign", "AssignOp"):
                l = strip_dt(x["l"])
                if l.get("k") == "Path" and "local" in l.get("res", {}):
                    lid = l["res"]["local"]
                    r = strip_dt(x["r"]) if x.get("k") == "Assign" else None
                    if r is not None and r.get("k") == "MethodCall" and F.norm(r.get("def")) in (
                            "Lexer::cur_byte_offset", "Lexer::cur_char_offset"):
                        good.add(lid)
                    else:
                        bad.add(lid)
        res = good - bad
        self.loop_assigned_cache[key] = res
        return res

    def mark_locals(self, loop):
        """Locals of type Option<mark> that, inside this loop, are only assigned `None`, or
        `x.or_else(|| Some(self.mark_token_start()))`, or `Some(self.mark_token_start())`."""
        key = ("mark", id(loop))
        if key in self.loop_assigned_cache:
            return self.loop_assigned_cache[key]
        good, bad = set(), set()

        def is_mark_call(e):
            e = strip_dt(e)
            return e.get("k") == "MethodCall" and F.norm(e.get("def")) == "Lexer::mark_token_start"

        def ok_rhs(r, lid):
            r = strip_dt(r)
            if r.get("k") == "Path" and F.norm(r["res"].get("def", "")).endswith("None"):
                return True
            if r.get("k") == "Call" and r.get("ctor") and F.norm(r.get("def", "")).endswith("Some") and is_mark_call(r["args"][0]):
                return True
            if r.get("k") == "MethodCall" and r.get("name") == "or_else":
                rc = strip_dt(r["recv"])
                if rc.get("k") == "Path" and rc["res"].get("local") == lid:
                    cl = strip_dt(r["args"][0])
                    if cl.get("k") == "Closure":
                        b = strip_dt(cl["body"])
                        if b.get("k") == "Call" and b.get("ctor") and is_mark_call(b["args"][0]):
                            return True
            return False
        for x, par in F.walk(loop["body"]):
            if x.get("k") == "Assign":
                l = strip_dt(x["l"])
                if l.get("k") == "Path" and "local" in l.get("res", {}):
                    lid = l["res"]["local"]
                    (good if ok_rhs(x["r"], lid) else bad).add(lid)
        res = good - bad
        self.loop_assigned_cache[key] = res
        return res

    def resnap(self, v, w):
        """Rebuild snapshot value v at a position label strictly before the next widened head."""
        from . import lea_prims
        sn = lea_prims.snap_of(v)
        if sn is None or sn[3] != 0:
            return None
        j = w.fields.get("_jump", 0) + 1
        p = j * 100000 - 50000
        mc = dict(w.fields.get("_minc", {}))
        mc[p] = mc.get(w.cursors["main"].pos, 0)
        w.fields["_minc"] = mc
        if sn[0] == "byte" and isinstance(v, Enum):
            return Enum(v.path, [Term("bin:Sub", (Term("source_len", (), "u32"),
                                                  Term("remaining_len", (Const("str", sn[1]), Const("int", p)), "u32")), "u32")])
        if sn[0] == "char" and isinstance(v, Enum):
            return Enum(v.path, [Term("char_offset", (Const("str", sn[1]), Const("int", p)), "u32")])
        return None

    def jump(self, st, cur):
        old = cur.pos
        st.fields["_jump"] = st.fields.get("_jump", 0) + 1
        cur.pos = st.fields["_jump"] * 100000
        cur.exact = False
        if cur.id == "main":
            mc = dict(st.fields.get("_minc", {}))
            mc[cur.pos] = mc.get(old, 0)
            st.fields["_minc"] = mc

    def widen_sig(self, w, fidx, assigned):
        ev_sig = tuple((e.kind, e.site) for e in w.events if e.kind in (
            "push", "pop", "ckpt", "emit", "error", "pending", "nesting", "stack_insert", "stack_truncate", "mode_update"))
        loc = tuple(tuple(sorted((k, repr(v.key()) if hasattr(v, "key") else repr(v)) for k, v in fr.items()
                                 if not (isinstance(v, Term) and v.op.startswith("loopvar#"))))
                    for fr in w.frames)
        return (ev_sig, w.ckpt, len(w.stack), w.below_pops, loc)

    # ---- calls --------------------------------------------------------------------
    def ev_Call(self, n, st, fidx):
        f = n["f"]
        # closure held in a local
        if n.get("closure") or (n.get("def") is None):
            res = []
            for o in self.ev(f, st, fidx):
                if o.kind != "val":
                    res.append(o)
                    continue
                cur, others = self.ev_list(n["args"], o.st, fidx)
                res.extend(others)
                for vals, s in cur:
                    res.extend(self.apply(o.val, vals, s, n, fidx))
            return res
        callee = n.get("_nd")
        if callee is None:
            callee = n["_nd"] = F.norm(n["def"])
        cur, others = self.ev_list(n["args"], st, fidx)
        res = list(others)
        for vals, s in cur:
            if n.get("ctor"):
                res.append(Out("val", Enum(canon_path(callee), vals), s))
            else:
                res.extend(self.call(callee, vals, s, n, fidx))
        return res

    def ev_MethodCall(self, n, st, fidx):
        callee = n.get("_nd")
        if callee is None:
            callee = n["_nd"] = F.norm(n.get("def")) if n.get("def") else "?::" + n["name"]
        cur, others = self.ev_list([n["recv"]] + n["args"], st, fidx)
        res = list(others)
        for vals, s in cur:
            res.extend(self.call(callee, vals, s, n, fidx))
        return res

    def apply(self, fv, args, st, n, fidx):
        """Call a function value (closure / fn path)."""
        if isinstance(fv, Closure):
            cn = fv.node
            frame = fv.frame if fv.frame < len(st.frames) else len(st.frames) - 1
            sts = [st]
            for p, a in zip(cn["params"], args):
                nsts = []
                for s in sts:
                    for ok, s2 in self.bind(p, a, s, frame):
                        if ok:
                            nsts.append(s2)
                sts = nsts
            res = []
            for s in sts:
                self.emit(s, "enter_closure", n, closure=cn.get("def"))
                for o in self.ev(cn["body"], s, frame):
                    if o.kind in ("val", "ret"):
                        self.emit(o.st, "leave_closure", n, closure=cn.get("def"))
                        res.append(Out("val", o.val, o.st))
                    else:
                        res.append(o)
            return res
        if isinstance(fv, FnRef):
            return self.call(fv.path, args, st, n, fidx)
        self.note_unanalysed("call of non-function value %r" % (fv,), n)
        return [Out("val", Term("apply", (fv,) + tuple(args), n.get("ty")), st)]

    def call(self, callee, args, st, n, fidx):
        from . import lea_prims
        h = lea_prims.lookup(callee)
        if h is not None:
            r = h(self, callee, args, st, n, fidx)
            if r is not None:
                return r
        if callee in self.fx.bodies and not self.fx.is_derive(callee):
            return self.call_local(callee, args, st, n)
        return lea_prims.default_external(self, callee, args, st, n, fidx)


def const_path_pat(q):
    if q.get("k") == "Expr" and q["e"].get("k") == "Path":
        return F.norm(q["e"]["res"].get("def", "?"))
    if q.get("k") == "Path":
        return F.norm(q["res"].get("def", "?"))
    return None


def char_lit_pat(q):
    if q.get("k") == "Expr" and q["e"].get("k") == "Lit" and q["e"].get("lt") == "char":
        return q["e"]["v"]
    return None


def optmark_payload(a):
    """Loop-carried Option<mark>: when Some, a token-start mark taken at an earlier (virtual) position."""
    p = a.args[0].v
    return Tup([
        Enum("text::ByteOffset", [Term("bin:Sub", (Term("source_len", (), "u32"), Term("remaining_len", (Const("str", "main"), Const("int", p)), "u32")), "u32")]),
        Enum("text::CharOffset", [Term("char_offset", (Const("str", "main"), Const("int", p)), "u32")]),
        Term("last_line", (Const("int", -p),), "LineIdx")])


def strip_dt(n):
    while n.get("k") in ("DropTemps", "Use"):
        n = n["e"]
    return n


def ninc_empty(f):
    return f is not None and f[0] is not None and len(f[0]) == 0


def canon_path(p):
    """Canonical variant path: prelude re-exports -> bare names."""
    last = p.split("::")[-1]
    if last in ("Some", "None", "Ok", "Err") and ("prelude" in p or "option" in p or "result" in p):
        return last
    return p
