"""Rules evaluated on LEA segments (online, before pruning) and on whole lex_token paths.

Every obligation key is (rule, key) with key built from function names, callee names, arm contexts and
constants — never line numbers.  `site` (file:line) is carried for reports only.
"""
import json
import re

from . import facts as F
from . import chars as C
from .lea import Const, Enum, Tup, Term, LA, Obj, SLen, LRef

COMMENT_TYPES = {"CStyleComment", "PredictedCommentStat", "MacroComment"}
HIDDEN_OK = {"WS", "CatchAll", "COLON", "KwmStr", "KwmNrStr", "LPAREN", "RPAREN"}
EXPECT_SYMBOLS = {"RPAREN", "ASSIGN", "LPAREN", "COMMA", "FSLASH"}
INTERNAL_ERRORS = {"InternalErrorMissingCheckpoint": 9001, "InternalErrorNoTokenText": 9002,
                   "InternalErrorOutOfBounds": 9003, "InternalErrorEmptyModeStack": 9004,
                   "InternalErrorNoTokenToReplace": 9005, "InternalErrorUnexpectedTokenType": 9006,
                   "InternalErrorUnexpectedModeStack": 9007, "InternalErrorInfiniteLoop": 9008,
                   "InternalErrorEmptyPendingStatStack": 9009}


def short_fn(name):
    return name.replace("Lexer::", "")


class SiteIndex:
    """Stable (line-free) keys for call sites: fn | callee | enclosing-arm context | ordinal."""

    def __init__(self, fx):
        self.by_sp = {}
        for fname, b in fx.bodies.items():
            if fx.is_derive(fname):
                continue
            counts = {}
            for node, par in F.walk(b["hir"]):
                k = node.get("k")
                if k in ("Call", "MethodCall", "Assign", "AssignOp", "Binary", "Index") and node.get("sp"):
                    cal = (F.callee(node).split("::")[-1] if k in ("Call", "MethodCall") else k) or k
                    ctx = self.arm_ctx(par)
                    base = "%s|%s|%s" % (short_fn(fname), cal, ctx)
                    counts[base] = counts.get(base, 0) + 1
                    key = base if counts[base] == 1 else "%s#%d" % (base, counts[base])
                    self.by_sp.setdefault((fname, node["sp"]), key)

    @staticmethod
    def arm_ctx(par):
        """Innermost enclosing match-arm pattern (as text) or if-branch marker."""
        for i in range(len(par) - 1, -1, -1):
            p = par[i]
            if "pat" in p and "body" in p and "k" not in p:
                return pat_text(p["pat"]) + (" if .." if p.get("guard") else "")
        return "-"

    def key(self, ev):
        own, osite = ev.d.get("owner"), ev.d.get("osite")
        k = self.by_sp.get((own, osite))
        if k:
            return k
        return self.by_sp.get((ev.fn, ev.site)) or "%s|?|%s" % (short_fn(ev.fn), F.file_line(ev.site or "?"))

    def where(self, ev):
        return F.file_line(ev.d.get("osite") or ev.site or "?")


def pat_text(p, depth=0):
    k = p.get("k")
    if depth > 3:
        return ".."
    if k == "Or":
        t = "|".join(pat_text(q, depth + 1) for q in p["pats"])
        return t if len(t) < 60 else t[:57] + ".."
    if k == "Expr":
        e = p["e"]
        if e["k"] == "Lit":
            return repr(e.get("v"))
        return F.norm(e["res"].get("def", "?")).split("::")[-1]
    if k == "Path":
        return F.norm(p["res"].get("def", "?")).split("::")[-1]
    if k == "Range":
        return "%r..%r" % ((p.get("lo") or {}).get("v"), (p.get("hi") or {}).get("v"))
    if k == "Wild":
        return "_"
    if k == "Bind":
        return p.get("name", "_") if not p.get("sub") else pat_text(p["sub"], depth + 1)
    if k in ("TupleStruct", "Struct"):
        name = F.norm(p["res"].get("def", "?")).split("::")[-1]
        if k == "TupleStruct":
            return "%s(%s)" % (name, ",".join(pat_text(q, depth + 1) for q in p["pats"]))
        return name + "{..}"
    if k == "Tuple":
        return "(" + ",".join(pat_text(q, depth + 1) for q in p["pats"]) + ")"
    if k in ("Ref", "Box", "Deref"):
        return pat_text(p["pat"], depth + 1)
    return k or "?"


# ---------------------------------------------------------------------------
# value sets

def variant_set(I, st, v):
    """Set of enum variant names the AV may denote on this path; None if not determinable."""
    if isinstance(v, LRef):
        v = I.deref(v, st)
    if isinstance(v, Enum) and not v.args and not v.fields:
        return {v.variant}
    if isinstance(v, Term):
        f = st.vfacts.get(I.vkey(v))
        if f is not None and f[0] is not None:
            names = set(f[0])
            if v.op == "tt_from" or (v.op == "subset_conv"):
                return {I.from_table.get(n, n) for n in names}
            return names
        if v.op in ("tt_from", "subset_conv"):
            # no refinement on this path: any variant of the subset enum
            allv = set(I.from_table.values())
            f2 = st.vfacts.get(I.vkey(v))
            if f2 is not None:
                allv -= {I.from_table.get(n, n) for n in f2[1]}
            return allv
    return None


# ---------------------------------------------------------------------------
# checker context


class Rules:
    def __init__(self, fx, I):
        self.fx = fx
        self.sites = SiteIndex(fx)
        self.counts = {}

    def bump(self, rule, metric, key):
        self.counts.setdefault(rule, {}).setdefault(metric, set()).add(key)

    # -- entry point registered as segment checker -----------------------
    def check_segment(self, I, seg):
        evs = seg.events
        st = seg.st
        start = seg.start
        self.r_panic(I, seg)
        if seg.level != "fn":
            # loop segments are seen before equal-signature outcomes are merged: the character classes a loop continues
            # and stops on are complete only here
            self.r_replay(I, seg, pairs=False)
        if seg.level == "fn":
            self.r_newline(I, seg)
            self.r_emit_rules(I, seg)
            self.r_internal_errors(I, seg)
            self.r_ckpt(I, seg)
            self.r_section(I, seg)
            self.r_retype(I, seg)
            self.r_nesting_flush(I, seg)
            self.r_mark_ws(I, seg)
            self.r_delim_shape(I, seg)
            self.r_expect_table(I, seg)
            self.r_nonempty_errpair(I, seg)
            self.r_spec_purity(I, seg)
            self.r_offsets(I, seg)
            self.r_spell(I, seg)
            self.r_lookbehind_datalines(I, seg)
            self.r_groups(I, seg)
            self.r_preconsume(I, seg)
            self.r_macrosep(I, seg)
            self.r_payload_escape(I, seg)
            self.r_mark_provenance(I, seg)
            self.r_expect_survives(I, seg)
            self.r_lookahead_linear(I, seg)
            self.r_keyword_flow(I, seg)
            self.r_unconsume(I, seg)
            self.r_stop_set(I, seg)
            self.r_pop_own(I, seg)
            self.r_replay(I, seg)
            self.r_payload_range(I, seg)
            self.r_err_names_token(I, seg)

    # -- R-NONEMPTY and R-ERR-PAIR ---------------------------------------------------------------
    MAY_BE_EMPTY = {"EOF", "MacroSep", "MacroStringEmpty", "SEMI", "LPAREN", "RPAREN", "ASSIGN", "COMMA", "FSLASH",
                    "StringExprEnd", "DatalinesData"}
    RECOVERY = {"MissingExpectedRParen": "RPAREN", "MissingExpectedAssign": "ASSIGN", "MissingExpectedLParen": "LPAREN",
                "MissingExpectedComma": "COMMA", "MissingExpectedFSlash": "FSLASH", "MissingExpectedSemiOrEOF": "SEMI"}

    def consumed_between(self, st, p0, p1, evs, i0, i1):
        """Lower bound of characters consumed between position labels p0 and p1 (events i0..i1)."""
        mc = st.fields.get("_minc", {})
        n = 0
        if p0 in mc and p1 in mc:
            n = mc[p1] - mc[p0]
        if n <= 0:
            for x in evs[i0:i1]:
                if x.kind == "consume" and x.d.get("via") == "advance_by" and x.d.get("chars") is None:
                    n = max(n, 1)   # advance_by(n) asserts n > 0 and R-ADVANCE-EVIDENCE backs the count
                elif x.kind == "consume" and x.d.get("via") == "advance_by" and x.d.get("chars"):
                    if str_evidence(st, x.d.get("pos"), len(x.d["chars"])) is not None:
                        n = max(n, len(x.d["chars"]))   # the path compared exactly these chars with a literal
        return n

    def r_nonempty_errpair(self, I, seg):
        from . import lea_prims
        st = seg.st
        evs = seg.events
        for idx in range(seg.start, len(evs)):
            e = evs[idx]
            if e.kind == "emit" and e.d.get("owner") == seg.name:
                ts = variant_set(I, st, e.d["type"])
                if not ts:
                    continue
                sn = lea_prims.snap_of(e.d.get("byte"))
                if sn is None:
                    continue
                # index of the governing start (cur_token write or mark) = first event at/after label p0
                i0 = idx
                for j in range(idx - 1, -1, -1):
                    x = evs[j]
                    if x.kind in ("consume",) and x.d.get("pos", 0) < sn[2]:
                        break
                    i0 = j
                n = self.consumed_between(st, sn[2], e.d.get("pos"), evs, i0, idx)
                key = "%s|%s" % (short_fn(seg.name), self.sites.key(e).split("|", 1)[-1])
                self.bump("R-NONEMPTY", "emit_sites", key)
                strict = ts - self.MAY_BE_EMPTY
                if strict:
                    ok = n >= 1
                    if not ok:
                        # a non-emptiness test of the pending text on the path
                        for k, v in st.bfacts.items():
                            if v is False and "is_empty" in repr(k) and "str_slice" in repr(k):
                                ok = True
                    I.ob("R-NONEMPTY", key, ok, self.sites.where(e),
                         "token of type %s covers at least one consumed character" % sorted(strict)[:4] if ok else
                         "a token of type %s can be emitted without any character consumed since its start (only %s may be empty); conditions: %s"
                         % (sorted(strict)[:4], sorted(self.MAY_BE_EMPTY)[:5], "; ".join(st.conds[-4:])[:240]))
                # converse of ERR-PAIR: an empty recovery symbol needs its diagnostic
                rec = ts & set(self.RECOVERY.values())
                if rec and n == 0 and len(ts) == 1 and not any(x.kind == "consume" for x in evs[i0:idx]):
                    t = next(iter(ts))
                    want = [k for k, v in self.RECOVERY.items() if v == t]
                    have = False
                    eof_semi = False
                    for x in evs[seg.start:idx]:
                        if x.kind == "error":
                            ks = variant_set(I, st, x.d.get("err")) or set()
                            if ks & set(want) or (t == "SEMI" and "UnterminatedDatalines" in ks):
                                have = True
                    if t == "SEMI" and short_fn(seg.name) == "finalize_lexing":
                        eof_semi = True
                    I.ob("R-ERR-PAIR", "%s|empty-%s-has-error" % (short_fn(seg.name), t), have or eof_semi, self.sites.where(e),
                         "zero-width %s is preceded by its 'missing expected' diagnostic" % t if have or eof_semi else
                         "a zero-width %s recovery token is emitted without the matching %s error" % (t, want))
            if e.kind == "error" and e.d.get("owner") == seg.name:
                ks = variant_set(I, st, e.d.get("err")) or set()
                rk = ks & set(self.RECOVERY)
                if not rk or len(ks) != 1:
                    continue
                k = next(iter(rk))
                want = self.RECOVERY[k]
                ok = False
                why = "no token follows the error in the same step"
                for x in evs[idx + 1:]:
                    if x.kind == "consume":
                        why = "input is consumed between the error and the recovery token"
                        break
                    if x.kind == "cur_token_write" and x.d.get("field") == "cur_token_byte_offset" and x.d.get("owner") != "Lexer::finalize_lexing":
                        pass
                    if x.kind == "emit":
                        ts = variant_set(I, st, x.d["type"]) or set()
                        sn = lea_prims.snap_of(x.d.get("byte"))
                        same_pos = sn is not None and sn[2] == x.d.get("pos")
                        ok = ts == {want} and same_pos
                        why = "followed by %s at %s" % (sorted(ts), "the error position" if same_pos else "a different position")
                        break
                self.bump("R-ERR-PAIR", "errors", "%s|%s" % (short_fn(seg.name), k))
                I.ob("R-ERR-PAIR", "%s|%s" % (short_fn(seg.name), k), ok, self.sites.where(e),
                     "%s is immediately followed by a zero-width %s token at the same offset" % (k, want) if ok else
                     "%s is not paired with a zero-width %s recovery token at the same offset (%s)" % (k, want, why))

    # -- R-LOOKBEHIND (datalines): statement start = previous DEFAULT token is absent or ';' ----------------
    def r_lookbehind_datalines(self, I, seg):
        if short_fn(seg.name) != "lex_datalines" or seg.out.kind != "val":
            return
        st = seg.st
        evs = seg.events[seg.start:]
        lbs = [e for e in evs if e.kind == "lookbehind" and e.d.get("owner") == seg.name]
        self.bump("R-DATALINES-START", "datalines_paths", "lex_datalines")
        key = "lex_datalines|statement-start"
        if not lbs or lbs[0].d.get("accessor") != "default":
            I.ob("R-DATALINES-START", key, False, F.file_line(self.fx.bodies[seg.name]["span"]),
                 "lex_datalines decides 'statement start' without looking at the previous DEFAULT-channel token "
                 "(hidden tokens such as catch-all characters must not matter, and 'no previous token' must equal ';')")
            return
        v = lbs[0].d.get("value")
        rejected = isinstance(seg.out.val, Const) and seg.out.val.v is False
        i_lb = evs.index(lbs[0])
        looked_ahead = any(e.kind in ("la_consume", "consume", "advance_at_eof", "peek") for e in evs[i_lb + 1:])
        if lbs[0].d.get("own"):
            return
        f_opt = st.vfacts.get(v.key()) if v is not None else None
        is_none = f_opt is not None and ((f_opt[0] is not None and set(f_opt[0]) == {"None"}) or "Some" in f_opt[1])
        tt = Term("field:token_type", (Term("Some.0", (v,), None),))
        f_tt = st.vfacts.get(tt.key())
        is_semi = f_tt is not None and f_tt[0] is not None and set(f_tt[0]) == {"SEMI"}
        not_semi = f_tt is not None and ("SEMI" in f_tt[1] or (f_tt[0] is not None and "SEMI" not in f_tt[0]))
        if rejected and not looked_ahead:
            ok = not_semi and not is_none
            I.ob("R-DATALINES-START", key, ok, self.sites.where(lbs[0]),
                 "datalines is rejected before the forward check only when the previous DEFAULT token exists and is not ';'" if ok else
                 "lex_datalines rejects a datalines keyword before the forward check although the previous DEFAULT token is %s" % ("absent" if is_none else "';' or untested"))
        else:
            ok = is_none or is_semi
            I.ob("R-DATALINES-START", key, ok, self.sites.where(lbs[0]),
                 "the forward check / datalines body is reached only when no DEFAULT token precedes or it is ';'" if ok else
                 "lex_datalines proceeds past the look-behind without establishing 'no previous DEFAULT token or ;'")

    # -- R-SPELL: symbol tokens are exactly their symbol ------------------------------------------------------
    def spellings(self):
        if "_spell" not in self.__dict__:
            import os
            from .report import VERIF
            with open(os.path.join(VERIF, "tables", "spellings.json")) as f:
                self._spell = json.load(f)
        return self._spell

    def r_spell(self, I, seg):
        from . import lea_prims
        st = seg.st
        evs = seg.events
        tab = self.spellings()
        for idx in range(seg.start, len(evs)):
            e = evs[idx]
            if e.kind != "emit" or e.d.get("owner") != seg.name:
                continue
            ts = variant_set(I, st, e.d["type"])
            if not ts or len(ts) != 1:
                continue
            t = next(iter(ts))
            if t not in tab["types"]:
                continue
            sn = lea_prims.snap_of(e.d.get("byte"))
            if sn is None:
                continue
            cons = []
            for j in range(idx - 1, -1, -1):
                x = evs[j]
                if x.kind == "consume":
                    if x.d.get("pos", 0) < sn[2]:
                        break
                    cons.append(x)
                elif x.kind in ("cursor_restore",):
                    break
            cons.reverse()
            # an advance_by that met the end of the input consumed nothing (chars == []): not consumption
            cons = [c for c in cons if c.d.get("chars") is None or len(c.d["chars"]) > 0]
            if not cons:
                continue   # zero-width (recovery) token: R-NONEMPTY / R-ERR-PAIR
            chars = []
            exact = True
            for c in cons:
                if c.d.get("chars") is None:
                    exact = False
                    break
                chars += c.d["chars"]
            key = "%s|%s" % (short_fn(seg.name), t)
            self.bump("R-SPELL", "emissions", key)
            if not exact:
                cls = advance_class(I, st, [c for c in cons if c.d.get("chars") is None][0], evs[seg.start:])
                ok = t == "AMP" and cls is not None and cls.get("cls") == "&"
                I.ob("R-SPELL", key, ok, self.sites.where(e), "run of '&' counted by is_macro_amp" if ok else
                     "%s emitted over characters skipped with advance_by without spelling evidence" % t)
                continue
            sets = []
            for ch in chars:
                cf = st.cs.get(ch.key())
                sets.append(cf.inc if cf is not None else None)
            if None in sets and len(cons) == 1 and cons[0].d.get("via") == "advance_by":
                lit = str_evidence(st, cons[0].d.get("pos"), len(chars))
                if lit is not None:
                    sets = [frozenset([c]) for c in lit]   # the path compared exactly these chars with a literal
            # contiguous position labels <=> no unknown stretch of input inside the token
            poss = [ch.abspos for ch in chars]
            widened = any(b - a != 1 for a, b in zip(poss, poss[1:])) or (poss and poss[0] != sn[2])
            ok = False
            why = ""
            spells = tab["types"][t]
            if any(sp.endswith("+") for sp in spells):
                base = spells[0][0]
                ok = all(s_ is not None and s_ <= {base} for s_ in sets)
                why = "one or more %r" % base
            elif None in sets:
                why = "a consumed character is unconstrained on this path"
            else:
                cands = list(spells)
                if t in tab["percent_prefix_ok"]:
                    cands += ["%" + sp for sp in spells]
                import itertools
                if not widened and len(sets) <= 4:
                    combos = ["".join(c) for c in itertools.product(*[sorted(s_) for s_ in sets])]
                    ok = all(c in cands for c in combos)
                    why = "consumed text %s" % combos[:4]
                else:
                    why = "token text spans a widened loop"
            I.ob("R-SPELL", key, ok, self.sites.where(e),
                 "%s is emitted over exactly one of its spellings (%s)" % (t, why) if ok else
                 "%s is emitted over text that is not one of its spellings %s: %s; conditions: %s" % (t, spells, why, "; ".join(st.conds[-4:])[:200]))

    # -- R-OFFSET-PROVENANCE / R-EMIT-ORDER / R-ERR-ORDER ------------------------------------------------
    def r_offsets(self, I, seg):
        """Every token's (byte, char) start is one cursor snapshot; starts never decrease along a path; error
        offsets are one snapshot and never decrease either."""
        from . import lea_prims
        st = seg.st
        if seg.name != "Lexer::lex_token" and seg.name != "Lexer::finalize_lexing":
            # positions are compared along whole steps; provenance is checked per owner below
            pass
        last_tok = None
        last_tok_ev = None
        last_err = None
        for e in seg.events[seg.start:]:
            if e.kind == "cursor_restore" or e.kind == "buffer_rollback":
                last_tok = None
                last_tok_ev = None
                last_err = None
            if e.kind in ("insert_token", "lasttok_write"):
                last_tok_ev = None
            if e.kind == "emit":
                b, c = lea_prims.snap_of(e.d.get("byte")), lea_prims.snap_of(e.d.get("start"))
                if e.d.get("owner") == seg.name:
                    key = "%s|%s" % (short_fn(seg.name), self.sites.key(e).split("|", 1)[-1])
                    self.bump("R-OFFSET-PROVENANCE", "emit_sites", key)
                    ok = b is not None and c is not None and b[0] == "byte" and c[0] == "char" and b[1:] == c[1:]
                    I.ob("R-OFFSET-PROVENANCE", key, ok, self.sites.where(e),
                         "token start byte/char offsets are one cursor snapshot" if ok else
                         "token start offsets are not one cursor snapshot (byte=%r start=%r): byte and char positions of the token disagree"
                         % (e.d.get("byte"), e.d.get("start")))
                    # the line component: the last line that had been added when the cursor stood at that snapshot
                    ln = e.d.get("line")
                    if ok and isinstance(ln, Term) and ln.op == "last_line" and ln.args and isinstance(ln.args[0], Const) and ln.args[0].v >= 0 \
                            and b[3] == 0 and b[2] < 50000:
                        all_evs = seg.events
                        upto = all_evs.index(e)
                        k = ln.args[0].v
                        lines = [(x.d.get("epoch_after"), x.d.get("pos", 10 ** 9)) for x in all_evs[:upto] if x.kind == "add_line"]
                        # lines added after the line value was read, but starting at or before the token start
                        late = [q for ep, q in lines if ep is not None and ep > k and q <= b[2]]
                        # the line value read belongs to a line that starts after the token start
                        early = [q for ep, q in lines if ep == k and q > b[2]]
                        okl = not late and not early
                        I.ob("R-OFFSET-PROVENANCE", key + "|line", okl, self.sites.where(e),
                             "the token's line is the last line added up to its start position" if okl else
                             ("the token starts at position label %d but its line was read %s: start line and column of the token "
                              "(and the end of the previous one) are wrong when a line feed sits in between"
                              % (b[2], "before the line starting at label %d was added" % late[0] if late else "after the line starting at label %d was added" % early[0])))
                if b is not None:
                    if last_tok is not None and b == last_tok and last_tok_ev is not None and seg.name in ("Lexer::lex_token", "Lexer::finalize_lexing"):
                        # a token's text runs up to the next token's start: same start => the earlier token is empty
                        ts0 = variant_set(I, st, last_tok_ev.d["type"]) or set()
                        strict = ts0 - self.MAY_BE_EMPTY
                        k0 = "%s|next-start" % self.sites.key(last_tok_ev)
                        self.bump("R-NONEMPTY", "same_start_pairs", k0)
                        I.ob("R-NONEMPTY", k0, not strict, self.sites.where(e),
                             "a token that shares its start with the next one is of a type that may be empty" if not strict else
                             "a token of type %s is followed by a token with the same start offset, so its text is empty (only %s "
                             "may be); next token: %s; conditions: %s" % (sorted(strict)[:3], sorted(self.MAY_BE_EMPTY)[:5],
                                                                            sorted(variant_set(I, st, e.d["type"]) or ["?"])[:3], "; ".join(st.conds[-4:])[:200]))
                    if last_tok is not None and b[1] == last_tok[1] and b[2] < last_tok[2] and seg.name in ("Lexer::lex_token", "Lexer::finalize_lexing"):
                        I.ob("R-EMIT-ORDER", "%s|decreasing" % short_fn(e.d.get("owner") or "?"), False, self.sites.where(e),
                             "a token is emitted with a start offset older than the previous token's start (snapshot labels %d < %d): "
                             "start offsets decrease" % (b[2], last_tok[2]))
                    last_tok = b
                    last_tok_ev = e
            if e.kind == "error":
                info = e.d.get("info")
                if isinstance(info, Enum):
                    b = lea_prims.snap_of(info.fields.get("at_byte_offset"))
                    c = lea_prims.snap_of(info.fields.get("at_char_offset"))
                    if e.d.get("owner") == seg.name:
                        ok = b is not None and c is not None and b[1:] == c[1:]
                        I.ob("R-OFFSET-PROVENANCE", "%s|error-offsets" % short_fn(seg.name), ok, self.sites.where(e),
                             "error byte/char offsets are one cursor snapshot" if ok else "error offsets are not one cursor snapshot")
                    if b is not None:
                        if last_err is not None and b[1] == last_err[1] and b[2] < last_err[2] and seg.name in ("Lexer::lex_token", "Lexer::finalize_lexing"):
                            I.ob("R-ERR-ORDER", "%s|decreasing" % short_fn(e.d.get("owner") or "?"), False, self.sites.where(e),
                                 "an error is recorded at an offset before the previously recorded error (labels %d < %d): the error list is not in source order"
                                 % (b[2], last_err[2]))
                        last_err = b
        if seg.name == "Lexer::lex_token":
            I.ob("R-EMIT-ORDER", "lex_token|paths", True, "", "token start snapshots are non-decreasing along the step")
            I.ob("R-ERR-ORDER", "lex_token|paths", True, "", "error offsets are non-decreasing along the step")

    # -- R-OFFSET-PROVENANCE for position triples handed around as values (token marks) -----------------------------
    def r_mark_provenance(self, I, seg):
        """A function that returns (byte offset, char offset, line) as a token position returns one cursor snapshot
        and the line that is current *at that moment* (not one remembered from the token start)."""
        from . import lea_prims
        v = seg.out.val if seg.out.kind == "val" else None
        if not (isinstance(v, Tup) and len(v.items) == 3):
            return
        b, c = lea_prims.snap_of(v.items[0]), lea_prims.snap_of(v.items[1])
        if b is None or c is None or b[0] != "byte" or c[0] != "char":
            return
        ln = v.items[2]
        key = "%s|returned-mark" % short_fn(seg.name)
        self.bump("R-OFFSET-PROVENANCE", "mark_fns", key)
        ok = b[1:] == c[1:]
        why = "byte and char offsets are different snapshots"
        if ok:
            cur = seg.st.lines_epoch
            ok = isinstance(ln, Term) and ln.op in ("last_line", "line_idx") and ln.args and isinstance(ln.args[0], Const) and ln.args[0].v == cur
            why = "the line component %r is not the line current when the snapshot is taken (line epoch %d)" % (ln, cur)
        I.ob("R-OFFSET-PROVENANCE", key, ok, F.file_line(self.fx.bodies[seg.name]["span"]) if seg.name in self.fx.bodies else "",
             "the returned position triple is one cursor snapshot with the line current at that moment" if ok else
             "%s returns a token position whose parts do not belong together: %s; a token emitted at this mark gets a wrong line / "
             "column once a line feed was consumed since the token start" % (short_fn(seg.name), why))

    # -- R-EXPECT-SURVIVES: a pending expectation mode is never thrown away by a stack truncation -------------------
    def r_expect_survives(self, I, seg):
        """ExpectSymbol / ExpectSemiOrEOF on the mode stack are obligations to diagnose a missing delimiter.  They
        leave the stack through their own handler only; a rollback (mode_stack.truncate) that removes one silently
        drops the diagnosis."""
        for e in seg.events[seg.start:]:
            if e.kind != "stack_truncate" or e.fn != seg.name:
                continue
            removed = e.d.get("removed")
            key = "%s|truncate" % short_fn(e.d.get("owner") or seg.name)
            self.bump("R-EXPECT-SURVIVES", "truncations", key)
            if removed is None:
                continue
            lost = [m.variant for m in removed if isinstance(m, Enum) and m.variant in ("ExpectSymbol", "ExpectSemiOrEOF")]
            what = []
            for m in removed:
                if isinstance(m, Enum) and m.variant == "ExpectSymbol":
                    what.append(abstract_mode(I, seg.st, m))
                elif isinstance(m, Enum) and m.variant == "ExpectSemiOrEOF":
                    what.append("Semi")
            I.ob("R-EXPECT-SURVIVES", key, not lost, self.sites.where(e),
                 "the truncation removes no pending expectation mode" if not lost else
                 "the mode-stack truncation (rollback) discards pending expectation mode(s) %s that were put on the stack after the "
                 "checkpoint was taken: the missing delimiter will not be diagnosed; removed modes (bottom..top): %s; conditions: %s"
                 % (what, [getattr(m, "variant", "?") for m in removed], "; ".join(seg.st.conds[-4:])[:200]))

    # -- R-ERR-NAMES-TOKEN: an "unterminated" diagnostic is recorded after the token it is about -----------------------------
    NAMING_ERRORS = ("UnterminatedStringLiteral", "UnterminatedComment")

    def r_err_names_token(self, I, seg):
        """An error remembers `buffer.last_token()` at the moment it is recorded.  C06 lets a comment or quoted literal
        go without its closing delimiter only if an "unterminated" error *names that token*, so in the function that
        reports it the token (or its re-typing) must already be in the buffer and nothing may be emitted after it."""
        st = seg.st
        evs = seg.events[seg.start:]
        for i, e in enumerate(evs):
            if e.kind != "error" or e.d.get("owner") != seg.name:
                continue
            ks = variant_set(I, st, e.d.get("err")) or set()
            if not ks or not ks <= set(self.NAMING_ERRORS):
                continue
            key = "%s|%s" % (short_fn(seg.name), "/".join(sorted(ks)))
            self.bump("R-ERR-NAMES-TOKEN", "errors", key)
            own = lambda x: x.d.get("owner") == seg.name
            before = any(x.kind == "emit" or (x.kind == "lasttok_write" and x.d.get("field") in ("token_type", None)) for x in evs[:i] if own(x))
            after = [x for x in evs[i + 1:] if x.kind == "emit" and own(x)]
            ok = before and not after
            I.ob("R-ERR-NAMES-TOKEN", key, ok, self.sites.where(e),
                 "the unterminated token is in the buffer when its error is recorded, and is the last one" if ok else
                 "%s records %s %s: the error remembers the last token at that moment, so it names %s instead of the "
                 "unterminated token, which is then left without its closing delimiter and without an error naming it"
                 % (short_fn(seg.name), "/".join(sorted(ks)),
                    "before emitting the token it is about" if after else "without having emitted a token",
                    "the token before it" if after else "an earlier token"))

    # -- R-PAYLOAD-RANGE: a string payload is a pair of positions in the literal buffer ------------------------------------
    def r_payload_range(self, I, seg):
        """`Payload::StringLiteral(a, b)` is a half-open range of the string-literal buffer.  Both components must be
        positions the buffer handed out (`next_string_literal_start`, the pair returned by `add_string_literal*`, or the
        minimum of such positions) - never a length or another quantity, which only coincides with a position while the
        buffer is empty."""
        def is_pos(v):
            for _ in range(4):
                if isinstance(v, Term) and (v.op.startswith("cast:") or v.op == "into") and v.args:
                    v = v.args[0]
            if isinstance(v, Term) and v.op in ("litpos", "lit_end", "lit_next"):
                return True
            if isinstance(v, Term) and v.op.startswith("ext:") and "min" in v.op and v.args:
                return all(is_pos(a) for a in v.args)
            return False
        for e in seg.events[seg.start:]:
            if e.d.get("owner") != seg.name:
                continue
            p = None
            if e.kind == "emit":
                p = e.d.get("payload")
            elif e.kind == "lasttok_write" and e.d.get("field") == "payload":
                p = e.d.get("value")
            if not (isinstance(p, Enum) and p.variant == "StringLiteral" and len(p.args) == 2):
                continue
            key = "%s|payload-range" % short_fn(seg.name)
            self.bump("R-PAYLOAD-RANGE", "payloads", self.sites.key(e))
            bad = [i for i, a in enumerate(p.args) if not is_pos(a)]
            I.ob("R-PAYLOAD-RANGE", key, not bad, self.sites.where(e),
                 "both ends of the payload range are positions handed out by the literal buffer" if not bad else
                 "%s builds Payload::StringLiteral(%r, %r): the %s component is not a position of the literal buffer (it "
                 "equals one only while the buffer is empty, i.e. when nothing before this token was unquoted)"
                 % (short_fn(seg.name), p.args[0], p.args[1], "second" if bad[-1] == 1 else "first"))

    # -- R-REPLAY-AGREE: a loop that re-walks what a look-ahead loop validated continues on the same characters ----------
    def r_replay(self, I, seg, pairs=True):
        """Idiom: scan ahead with a copy of the cursor (or its `chars()` iterator) to decide, then walk the real cursor
        over the same stretch "to track line changes".  The second walk must stop exactly where the first one did: per
        loop the characters it *continues* on and the characters it *stops* on are collected from the character facts of
        every path (all modes; joined in lea_engine.compute), and for every such pair of loops
        continue(look-ahead) is a subset of continue(replay) and continue(replay) avoids stop(look-ahead)."""
        st = seg.st
        evs = seg.events
        strm = I.stream_of(st, "main")
        cur = []
        loops = {}     # loop id -> {"cursor", "first_pos", "items": [(pos, kind)]}
        last = {}      # loop id -> index into items of the consume awaiting classification
        order = []
        restores = []  # (event index, to_pos) of `self.cursor = <saved copy>` in this function
        for ei, e in enumerate(evs[seg.start:]):
            k = e.kind
            if e.d.get("owner") != seg.name and k in ("loop_enter", "loop_exit", "loop_back", "consume", "la_consume", "cursor_restore"):
                continue
            if k == "cursor_restore":
                restores.append((ei, e.d.get("to_pos")))
            elif k == "loop_enter":
                cur.append(e.d["loop"])
            elif k == "loop_exit":
                L = e.d["loop"]
                if L in last:
                    loops[L]["items"][last.pop(L)][1] = "stop"
                if cur and cur[-1] == L:
                    cur.pop()
            elif k == "loop_back":
                L = e.d["loop"]
                if L in last:
                    loops[L]["items"][last.pop(L)][1] = "cont"
            elif k in ("consume", "la_consume") and cur and e.d.get("via") == "advance" and e.d.get("chars"):
                L = cur[-1]
                d = loops.get(L)
                if d is None:
                    d = loops[L] = {"cursor": e.d.get("cursor"), "first_pos": e.d.get("pos"), "items": [], "first_ev": ei}
                    order.append(L)
                d["last_ev"] = ei
                if d["cursor"] != e.d.get("cursor"):
                    d["mixed"] = True
                d["items"].append([e.d.get("pos"), "abort"])
                last[L] = len(d["items"]) - 1
        if seg.out.kind == "loopback":
            for L, i in last.items():
                loops[L]["items"][i][1] = "cont"
        fn = short_fn(seg.name)
        for L in order:
            d = loops[L]
            if d.get("mixed"):
                continue
            for pos, kind in d["items"]:
                cf = st.cs.get(("LA", strm, pos))
                for x in self._ALPHABET:
                    if cf is None or cf.possible(x):
                        self.bump("R-REPLAY-AGREE", "char_%s" % kind, "%s|%s|%d" % (fn, L, ord(x)))
        # pairs: a look-ahead loop and a later main-cursor loop that start at the same position
        # (the look-ahead may also be done on the real cursor, which is then put back to where the loop started)
        for i, A in enumerate(order if pairs else ()):
            if loops[A].get("mixed"):
                continue
            for B in order[i + 1:]:
                if loops[B]["cursor"] != "main" or loops[B].get("mixed") or loops[B]["first_pos"] != loops[A]["first_pos"]:
                    continue
                speculative = loops[A]["cursor"] != "main" or any(
                    loops[A]["last_ev"] < ri < loops[B]["first_ev"] and rp == loops[A]["first_pos"] for ri, rp in restores)
                if speculative:
                    self.bump("R-REPLAY-AGREE", "pairs", "%s|%s|%s" % (fn, A, B))

    # -- R-POP-OWN: a step pops only modes it can name --------------------------------------------------------------------
    def r_pop_own(self, I, seg):
        """A `lex_token` step owns the mode it was dispatched for and the modes it pushed itself.  Popping a mode
        *below* those is popping somebody else's pending work: it is sound only on a path that has looked at that mode
        and knows which one it is (`self.mode().is_expect_semi_or_eof()` before the second pop of `%to ... %by`)."""
        for e in seg.events[seg.start:]:
            if e.kind != "pop" or e.d.get("owner") != seg.name:
                continue
            key = "%s|pop" % short_fn(seg.name)
            self.bump("R-POP-OWN", "pops", self.sites.key(e))
            if e.d.get("known"):
                I.ob("R-POP-OWN", key, True, self.sites.where(e), "pops the dispatched mode or one pushed in this step")
                continue
            ident = e.d.get("identified")
            if not ident:
                # the unwinding idiom `while let Some(mode) = stack.pop() { match mode {..} }` looks at the mode after
                # taking it: any variant fact about the popped value on this path counts as having looked
                m = e.d.get("mode")
                f = seg.st.vfacts.get(m.key()) if m is not None and hasattr(m, "key") else None
                if f and (f[0] or f[1]):
                    ident = sorted(f[0]) if f[0] else ["not " + x for x in sorted(f[1])][:3]
            I.ob("R-POP-OWN", key + "|below", bool(ident), self.sites.where(e),
                 "pops a mode below its own and identifies it (%s)" % "/".join(ident or []) if ident else
                 "%s pops a mode below the one it was dispatched for without having looked at it: whatever the enclosing "
                 "construct left pending there (an open string expression, an expected delimiter) is dropped without its "
                 "closing token or diagnostic; conditions: %s" % (short_fn(seg.name), "; ".join(seg.st.conds[-4:])[:240]))

    # -- R-STOP-SET: a text scanner of macro-free code ends its token only where the grammar lets it ----------------------
    _ALPHABET = [chr(i) for i in range(1, 128)] + list("\u00e9\u044b\u3042\u00a0\u2003\ufeff\u00ac\u00a6\u2218\U0001f525\u0085\u1680\u2028\u3000")

    def stop_sets(self):
        c = self.__dict__.get("_stopsets")
        if c is None:
            import os
            with open(os.path.join(os.path.dirname(os.path.dirname(os.path.abspath(__file__))), "tables", "stop_sets.json")) as f:
                c = self._stopsets = json.load(f)["types"]
        return c

    @staticmethod
    def _name_start(x):
        return x == "_" or x.isalpha()

    def r_stop_set(self, I, seg):
        from . import lea_prims
        st = seg.st
        tab = self.stop_sets()
        evs = seg.events
        strm = I.stream_of(st, "main")
        for idx in range(seg.start, len(evs)):
            e = evs[idx]
            if e.kind != "emit" or e.d.get("owner") != seg.name:
                continue
            ts = variant_set(I, st, e.d["type"])
            if not ts or len(ts) != 1 or next(iter(ts)) not in tab:
                continue
            t = next(iter(ts))
            stops = tab[t]["stops"]
            p = e.d.get("pos")
            key = "%s|%s" % (short_fn(seg.name), t)
            self.bump("R-STOP-SET", "emissions", self.sites.key(e))
            # the facts of the whole path are used: later tests on the same positions only narrow them
            if lea_prims.eof_known(st, strm, p) is True:
                I.ob("R-STOP-SET", key, "<eof>" in stops, self.sites.where(e), "token ends at end of input")
                continue
            cf0 = st.cs.get(("LA", strm, p))
            cf1 = st.cs.get(("LA", strm, p + 1))
            bad = None
            if cf0 is None:
                bad = "nothing is known about the character the token stops in front of"
            else:
                for x in self._ALPHABET:
                    if not cf0.possible(x):
                        continue
                    if x in stops:
                        continue
                    if any(sp.startswith("<not:") and C.NAMED.get(sp[5:-1]) and not C.NAMED[sp[5:-1]](x) for sp in stops):
                        continue
                    if x == "%" and ("%name_start" in stops or "%*" in stops):
                        nxt = [y for y in self._ALPHABET if cf1 is None or cf1.possible(y)]
                        off = [y for y in nxt if not (("%*" in stops and y == "*") or ("%name_start" in stops and self._name_start(y)))]
                        if cf1 is not None and not off:
                            continue
                        bad = "it may stop in front of '%%' followed by %s" % (repr(off[0]) if off else "anything")
                        break
                    bad = "it may stop in front of %r" % x
                    break
            I.ob("R-STOP-SET", key, bad is None, self.sites.where(e),
                 "%s ends only in front of %s" % (t, " ".join(stops)) if bad is None else
                 "%s is emitted by %s on a path where %s; the grammar lets this token end only in front of %s, so on "
                 "macro-free text the literal is split into several tokens; conditions: %s"
                 % (t, short_fn(seg.name), bad, " ".join(stops), "; ".join(st.conds[-5:])[:260]))

    # -- R-UNCONSUME: putting the cursor back takes back what was recorded for the un-consumed text -------------------
    def r_unconsume(self, I, seg):
        """`self.cursor = <saved copy>` un-consumes the text between the saved position and the cursor.  Whatever the
        buffer recorded for that text since (line starts, tokens) must be taken back by a buffer rollback in the same
        function; otherwise the line table / token list describes text the lexer is about to read again."""
        from .lea_prims import snap_of
        evs = seg.events
        for i in range(seg.start, len(evs)):
            r = evs[i]
            if r.kind != "cursor_restore" or r.d.get("owner") != seg.name:
                continue
            key = "%s|restore" % short_fn(seg.name)
            self.bump("R-UNCONSUME", "restores", self.sites.key(r))
            p = r.d.get("to_pos")
            if p is None:
                I.ob("R-UNCONSUME", key, False, self.sites.where(r),
                     "the lexer's cursor is replaced by a value LEA cannot trace to a saved copy of it")
                continue
            rolled = any(x.kind == "buffer_rollback" and x.d.get("owner") == seg.name for x in evs[seg.start:])
            stale = []
            for j in range(i - 1, -1, -1):
                x = evs[j]
                if x.kind in ("cursor_restore", "buffer_rollback"):
                    break
                if x.kind == "add_line":
                    sn = snap_of(x.d.get("start"))
                    if sn and sn[2] > p:
                        stale.append(("line start", x))
                elif x.kind == "emit":
                    sn = snap_of(x.d.get("byte"))
                    if sn and sn[2] >= p and x.d.get("pos", 0) > p:
                        stale.append(("token", x))
            ok = rolled or not stale
            I.ob("R-UNCONSUME", key, ok, self.sites.where(r),
                 "the buffer is rolled back with the cursor" if rolled else
                 "nothing was recorded for the un-consumed text" if ok else
                 "the cursor is put back from position %s to %s, but the %s recorded at %s for the text in between is kept "
                 "(no buffer rollback in %s): the same text is lexed again on top of it"
                 % (r.d.get("from_pos"), p, stale[0][0], self.sites.where(stale[0][1]), short_fn(seg.name)))

    # -- R-KEYWORD-FLOW: a keyword type is the table entry of exactly the scanned identifier ---------------------------
    def lookup_owner_fns(self):
        """function -> phf map, for functions that call a one-line lookup wrapper (or `phf::Map::get` itself):
        discovered from the call graph of the facts, nothing is named here."""
        c = self.__dict__.get("_kwfns")
        if c is None:
            wrappers = {}
            for fname, b in self.fx.bodies.items():
                for node, _ in F.walk(b["hir"]):
                    if node.get("k") == "MethodCall" and node.get("def") and F.norm(node["def"]) == "phf::Map::get":
                        recv = F.strip(node["recv"])
                        m = recv.get("res", {}).get("def") if recv.get("k") == "Path" else None
                        if m:
                            wrappers[fname] = F.norm(m)
            c = dict(wrappers)
            for fname, b in self.fx.bodies.items():
                for node, _ in F.walk(b["hir"]):
                    if node.get("k") in ("Call", "MethodCall") and node.get("def") and F.norm(node["def"]) in wrappers:
                        c.setdefault(fname, wrappers[F.norm(node["def"])])
            self._kwfns = c
        return c

    @staticmethod
    def key_extent(key):
        """(start label, end label) of the source text a lookup key denotes, or None."""
        from .lea_prims import snap_of
        v = key
        for _ in range(6):
            if isinstance(v, Term) and v.op.startswith("ext:") and ("as_ref" in v.op or "AsRef" in v.op or "borrow" in v.op.lower()) and v.args:
                v = v.args[0]
            else:
                break

        def dist(t):
            for _ in range(4):
                if isinstance(t, Term) and (t.op.startswith("cast:") or t.op == "into") and t.args:
                    t = t.args[0]
            if isinstance(t, Term) and t.op == "bin:Sub" and len(t.args) == 2 and \
                    all(isinstance(x, Term) and x.op == "remaining_len" for x in t.args):
                return (t.args[0].args[1].v, t.args[1].args[1].v)
            return None

        def slice_extent(sl):
            if not (isinstance(sl, Term) and sl.op == "str_slice" and len(sl.args) == 3):
                return None
            base, a, b = sl.args
            if isinstance(base, Obj) and base.kind == "source":
                x, y = snap_of(a), snap_of(b)
                if x and y and x[0] == y[0] == "byte" and x[3] == 0 and y[3] == 0:
                    return (x[2], y[2])
            if isinstance(base, Term) and base.op == "as_str" and a.key() == ("C", "unit", None) or (isinstance(base, Term) and base.op == "as_str" and repr(a) in ("()", "None")):
                d = dist(b)
                if d and d[0] == base.args[1].v:
                    return d
            return None
        if isinstance(v, Term) and v.op == "upper_of" and v.args:
            return slice_extent(v.args[0])
        if isinstance(v, Term) and v.op.startswith("ext:") and "from_utf8_unchecked" in v.op and v.args:
            a = v.args[0]
            if isinstance(a, Term) and a.op == "index" and len(a.args) == 2 and isinstance(a.args[1], Enum):
                end = a.args[1].fields.get("end")
                d = dist(end)
                if d:
                    return d
                if isinstance(end, Term) and end.op == "len" and end.args:
                    return slice_extent(end.args[0])
        return slice_extent(v)

    def r_keyword_flow(self, I, seg):
        st = seg.st
        owners = self.lookup_owner_fns()
        # (1) the key of a table lookup is the whole scanned text: it ends where the scanning cursor stands
        for e in seg.events[seg.start:]:
            if e.kind != "phf_lookup" or e.d.get("owner") != seg.name or not e.d.get("hit"):
                continue
            mp = short_fn(e.d["map"])
            key = "%s|lookup-key" % mp
            ext = self.key_extent(e.d["key"])
            self.bump("R-KEYWORD-FLOW", "lookups", self.sites.key(e))
            if ext is None:
                I.ob("R-KEYWORD-FLOW", key, False, self.sites.where(e),
                     "the key looked up in %s is not the (upper-cased) text of a source range LEA can place: %r" % (mp, e.d["key"]))
                continue
            ok = ext[1] in set(e.d.get("cursors", {}).values()) and ext[0] < ext[1]
            I.ob("R-KEYWORD-FLOW", key, ok, self.sites.where(e),
                 "the key is the scanned text up to the scanning cursor" if ok else
                 "the key looked up in %s covers positions [%s, %s) but no cursor stands at its end (cursors: %s): the "
                 "looked-up text is not the whole scanned identifier" % (mp, ext[0], ext[1], e.d.get("cursors")))
        # (2) a token typed by a table entry spans exactly the looked-up text (after an optional fixed prefix)
        for i in range(seg.start, len(seg.events)):
            e = seg.events[i]
            if e.kind != "emit" or e.d.get("owner") != seg.name:
                continue
            t = e.d.get("type")
            tk = repr(t.key()) if hasattr(t, "key") else ""
            if "'phf_val'" not in tk:
                continue
            pv = t
            for _ in range(6):
                if isinstance(pv, Term) and pv.op != "phf_val" and pv.args:
                    pv = pv.args[0]
            if not (isinstance(pv, Term) and pv.op == "phf_val"):
                continue
            mp = short_fn(pv.args[0].v)
            ext = self.key_extent(pv.args[1])
            key = "%s|%s|emit-extent" % (short_fn(seg.name), mp)
            self.bump("R-KEYWORD-FLOW", "keyword_emits", self.sites.key(e))
            if ext is None:
                I.ob("R-KEYWORD-FLOW", key, False, self.sites.where(e), "token typed by a %s entry whose key LEA cannot place" % mp)
                continue
            from .lea_prims import snap_of
            b = snap_of(e.d.get("byte"))
            start = b[2] if b and b[3] == 0 else None
            pre_ok = start is not None and start <= ext[0]
            if pre_ok and start < ext[0]:
                # fixed prefix (the `%` of a macro keyword): every character before the key is a single known character
                if ext[0] - start > 4 or ext[0] // 100000 != start // 100000:
                    pre_ok = False
                for q in range(start, ext[0]) if pre_ok else ():
                    f = st.cs.get(("LA", "main", q))
                    cs = (f.inc - f.exc) if f is not None and f.inc is not None else None
                    if not cs or len(cs) != 1:
                        pre_ok = False
            ok = pre_ok and e.d.get("pos") == ext[1]
            I.ob("R-KEYWORD-FLOW", key, ok, self.sites.where(e),
                 "the token ends where the looked-up text ends" if ok else
                 "token typed by a %s entry: token start %s, cursor at emission %s, but the looked-up text is [%s, %s): the "
                 "keyword type does not describe the token's text" % (mp, start, e.d.get("pos"), ext[0], ext[1]))
        # (3) every key length of the table is admitted by some path that consults the table (joined over all
        #     paths and modes in lea_engine.compute: an existential obligation)
        if seg.level == "fn" and seg.name in owners and seg.out.kind in ("val", "ret"):
            mp = owners[seg.name]
            lens = sorted({len(k) for k, _ in (I.phf.get(mp) or [])})
            looked = any(e.kind == "phf_lookup" for e in seg.events[seg.start:])
            tag = "%s|%s" % (short_fn(seg.name), short_fn(mp))
            for L in lens:
                self.bump("R-KEYWORD-FLOW", "kwlen_required", "%s|%d" % (tag, L))
            if looked:
                admitted = set(lens)
                for fk, fv in st.bfacts.items():
                    if isinstance(fk, tuple) and len(fk) == 2 and fk[0] == "b":
                        fk = fk[1]
                    if not (isinstance(fk, tuple) and len(fk) == 4 and fk[0] == "X" and fk[1] in ("bin:Gt", "bin:Ge", "bin:Lt", "bin:Le")):
                        continue
                    a, b = fk[2], fk[3]
                    if isinstance(b, tuple) and b[:2] == ("C", "int") and "len" in repr(a):
                        n, op = b[2], fk[1]
                    elif isinstance(a, tuple) and a[:2] == ("C", "int") and "len" in repr(b):
                        n, op = a[2], {"bin:Gt": "bin:Lt", "bin:Ge": "bin:Le", "bin:Lt": "bin:Gt", "bin:Le": "bin:Ge"}[fk[1]]
                    else:
                        continue
                    pred = {"bin:Gt": lambda L: L > n, "bin:Ge": lambda L: L >= n, "bin:Lt": lambda L: L < n, "bin:Le": lambda L: L <= n}[op]
                    admitted = {L for L in admitted if pred(L) == fv}
                for L in admitted:
                    self.bump("R-KEYWORD-FLOW", "kwlen_covered", "%s|%d" % (tag, L))

    # -- R-LOOKAHEAD-LINEAR: an unbounded look-ahead scan is paid for by consuming what it scanned ------------------
    def r_lookahead_linear(self, I, seg):
        """is_macro_amp scans a whole run of '&'.  A scanner loop that calls it and then keeps looping must consume
        the run it just scanned (advance_by(count)); consuming less re-scans the rest on the next iteration, i.e.
        quadratic work on a long run (C01: work stays linear in the input length)."""
        evs = seg.events
        for idx in range(seg.start, len(evs)):
            e = evs[idx]
            if e.kind != "la_scan" or not e.d.get("unbounded") or e.fn != seg.name:
                continue
            want = Term("proj1", (e.d["result"],), "u32").key()
            verdict = None
            in_loop = False
            for x in evs[idx + 1:]:
                if x.kind == "loop_enter":
                    in_loop = True      # e.g. `for _ in 0..count { advance() }`: consumed piecewise, no verdict
                if x.kind == "consume" and x.d.get("cursor") == "main":
                    if in_loop:
                        verdict = None
                        break
                    cnt = x.d.get("count")
                    if hasattr(cnt, "key") and (cnt.key() == want or repr(want) in repr(cnt.key())):
                        verdict = True     # the scanned run is consumed as a whole
                    else:
                        verdict = False
                    break
                if x.kind in ("emit", "leave") and (x.kind == "emit" or x.d.get("callee") == seg.name):
                    verdict = True         # the scan ended the token / the function: no re-scan of the same run
                    break
                if x.kind == "loop_back":
                    verdict = False
                    break
            if verdict is None:
                continue
            key = self.sites.key(e)
            self.bump("R-LOOKAHEAD-LINEAR", "scans", key)
            I.ob("R-LOOKAHEAD-LINEAR", key, verdict, self.sites.where(e),
                 "the run scanned by %s is consumed as a whole (or ends the token)" % e.d["scanner"] if verdict else
                 "%s scans a whole run of characters, but the loop goes on after consuming less than that run: the rest is "
                 "scanned again on the next iteration (quadratic work on a long run); conditions: %s"
                 % (e.d["scanner"], "; ".join(seg.st.conds[-4:])[:200]))

    # -- R-SPEC-PURITY: no diagnostics while a checkpoint is live ------------------------------------
    def r_spec_purity(self, I, seg):
        if getattr(self, "in_finalize", False):
            # at end of input nothing rolls back any more (R-EOF-AT-END: finalize_lexing never puts the cursor back), so a
            # checkpoint that is still set when the unwinding starts cannot take a diagnostic's token away
            return
        st = seg.st
        for e in seg.events[seg.start:]:
            if e.kind != "error" or e.d.get("owner") != seg.name:
                continue
            # every diagnostic site is an instance: the rule decides "is a checkpoint live here" for each
            self.bump("R-SPEC-PURITY", "error_sites", self.sites.key(e))
            if e.d.get("ckpt") != "some":
                continue
            ks = variant_set(I, st, e.d.get("err")) or {"?"}
            if ks <= {"UnterminatedComment"}:
                continue   # only at end of input, after which nothing rolls back
            if ks & set(INTERNAL_ERRORS):
                continue   # reachability of internal errors is R-9XXX's obligation
            key = "%s|%s" % (short_fn(seg.name), "/".join(sorted(ks))[:60])
            I.ob("R-SPEC-PURITY", key, False, self.sites.where(e),
                 "error %s is recorded while a checkpoint is live: the error list is not part of the checkpoint, so the "
                 "diagnostic survives a rollback (and names a token index that may be truncated)" % sorted(ks))

    # ------------------------------------------------------------------
    def local_names(self, fname):
        """local id -> name for a function body (patterns and params, closures included)."""
        c = self.__dict__.setdefault("_lnames", {})
        if fname not in c:
            m = {}
            b = self.fx.bodies.get(fname)
            if b:
                for p in b["params"]:
                    for node, _ in F.walk(p):
                        if node.get("k") == "Bind":
                            m[node["id"]] = node["name"]
                for node, _ in F.walk(b["hir"]):
                    if node.get("k") == "Bind":
                        m[node["id"]] = node["name"]
            c[fname] = m
        return c[fname]

    def token_start_pos(self, seg, upto_index):
        """Position label of the governing start_token (last cur_token_byte_offset write before index)."""
        evs = seg.events
        for i in range(upto_index - 1, -1, -1):
            e = evs[i]
            if e.kind == "cur_token_write" and e.d.get("field") == "cur_token_byte_offset":
                from . import lea_prims
                sn = lea_prims.snap_of(e.d.get("value"))
                return sn[2] if sn else None
        return None

    # -- R-SECTION: literal sections are anchored at the token start and end at the closer --------
    def r_section(self, I, seg):
        from . import lea_prims
        st = seg.st
        evs = seg.events
        for idx in range(seg.start, len(evs)):
            e = evs[idx]
            if e.kind != "add_literal" or e.d.get("owner") != seg.name:
                continue
            t = e.d.get("text")
            if not (isinstance(t, Term) and t.op == "str_slice"):
                continue   # a decoded value (hex literal), not a source section
            fnk = short_fn(seg.name)
            self.bump("R-SECTION", "sections", self.sites.key(e))
            start, end = lea_prims.snap_of(t.args[1]), lea_prims.snap_of(t.args[2])
            tokpos = self.token_start_pos(seg, idx)
            # first section of this token?
            first = True
            for j in range(idx - 1, -1, -1):
                x = evs[j]
                if x.kind == "add_literal":
                    tx = x.d.get("text")
                    if isinstance(tx, Term) and tx.op == "str_slice":
                        first = False
                        break
                if x.kind == "cur_token_write" and x.d.get("field") == "cur_token_byte_offset":
                    break
            widened = False
            for j in range(idx - 1, -1, -1):
                x = evs[j]
                if x.kind == "loop_widen":
                    widened = True
                    break
                if x.kind == "cur_token_write" and x.d.get("field") == "cur_token_byte_offset":
                    break
            if first and not widened and start is not None and tokpos is not None and start[3] == 0:
                strm = start[1]
                ok = start[2] == tokpos
                why = "first literal section starts at the token start"
                if not ok and start[2] == tokpos + 1:
                    cf = st.cs.get(("LA", strm, tokpos))
                    if cf is not None and cf.inc is not None and cf.inc <= {"'", '"'}:
                        ok = True
                        why = "first literal section starts right after the opening quote"
                I.ob("R-SECTION", "%s|ANCHOR" % fnk, ok, self.sites.where(e),
                     why if ok else
                     "the first literal section of the token starts at the scanner's entry offset, %s position label(s) after "
                     "the token start: characters the dispatcher already consumed are missing from the unquoted payload; conditions: %s"
                     % (start[2] - tokpos, "; ".join(st.conds[-4:])[:240]))
            if end is not None and end[3] < 0:
                # `current offset - k`: the k characters just consumed must be the closing delimiter,
                # i.e. equal to the opening quote of this token
                k = -end[3]
                strm = end[1]
                ok = tokpos is not None
                opener = st.cs.get(("LA", strm, tokpos)) if tokpos is not None else None
                for i in range(1, k + 1):
                    cf = st.cs.get(("LA", strm, end[2] - i))
                    if cf is None or cf.inc is None or not (cf.inc <= {"'", '"'}) or opener is None or opener.inc is None or not (cf.inc <= opener.inc):
                        ok = False
                I.ob("R-SECTION", "%s|END" % fnk, ok, self.sites.where(e),
                     "section end = current offset - %d and the character(s) just consumed are the closing quote" % k if ok else
                     "section end is taken as `current offset - %d` but the character(s) consumed right before are not the closing "
                     "quote on this path (text after the quote leaks into the payload or the quote is cut); conditions: %s"
                     % (k, "; ".join(st.conds[-5:])[:260]))

    # -- R-RETYPE-GUARD: a retyping write to the last token is guarded through the same accessor class --
    def r_retype(self, I, seg):
        st = seg.st
        evs = seg.events
        for idx in range(seg.start, len(evs)):
            e = evs[idx]
            if e.kind != "lasttok_write" or e.d.get("owner") != seg.name:
                continue
            if e.d.get("field") != "token_type":
                continue
            acc, ep = e.d.get("accessor"), e.d.get("epoch")
            guarded = False
            for j in range(idx - 1, -1, -1):
                x = evs[j]
                if x.kind == "lookbehind" and x.d.get("epoch") == ep:
                    if x.d.get("accessor") == acc:
                        # the test must have come out *positive* on this path: the token is known to be of the
                        # type(s) that are meant to be re-typed, not merely "not something else"
                        v = x.d.get("value")
                        tt = Term("field:token_type", (Term("Some.0", (v,), None),)) if v is not None else None
                        f = st.vfacts.get(tt.key()) if tt is not None else None
                        if f is not None and f[0] is not None:
                            guarded = True
                            break
                if x.kind in ("emit", "insert_token", "buffer_rollback"):
                    break
            if not guarded:
                # tested through the mutable reference itself (closure over last_token_info_*_mut)
                t = Term("lasttok.token_type", (Const("int", ep),))
                f = st.vfacts.get(t.key())
                guarded = f is not None and f[0] is not None
            key = "%s|%s" % (short_fn(seg.name), acc)
            self.bump("R-RETYPE-GUARD", "writes", key)
            I.ob("R-RETYPE-GUARD", key, guarded, self.sites.where(e),
                 "token retyped through last_token_info%s_mut() after a type test through the same accessor" % ("_on_default_channel" if acc == "default" else "") if guarded else
                 "the last token (accessor '%s') is retyped, but the type test that guards it looked at a different token "
                 "(other accessor) or is missing: hidden/comment tokens in between make them differ" % acc)

    # -- R-PRECONSUME: a dispatcher's pre-consumed first character is one the scanner would treat as plain text --
    def r_preconsume(self, I, seg):
        for e in seg.events[seg.start:]:
            if e.kind != "preconsume_probe" or e.fn != seg.name:
                continue
            v = e.d.get("verdict")
            callee = short_fn(e.d.get("callee") or "?")
            key = "%s->%s" % (self.sites.key(e.d["first"]), callee)
            if v == "skip":
                self.bump("R-PRECONSUME", "skipped", key)
                continue
            self.bump("R-PRECONSUME", "probes", key)
            ok = v == "ok"
            I.ob("R-PRECONSUME", key, ok, self.sites.where(e.d["first"]),
                 "%s consumes the first character itself before %s: %s" % (short_fn(seg.name), callee, e.d.get("why")) if ok else
                 "%s consumes the first character of the token itself and then calls %s, but from the token start %s; "
                 "conditions: %s" % (short_fn(seg.name), callee, e.d.get("why"), "; ".join(seg.st.conds[-4:])[:240]))

    # -- R-PAYLOAD-ESCAPE: a token whose text skipped an escape character carries a payload ----------------------
    def r_payload_escape(self, I, seg):
        """A literal section is cut (add_string_literal) only where the scanner skips a quoting character.  If that
        happened since the token start, the token emitted next (by the scanner or by a helper it hands the payload to)
        must carry the unquoted payload; the lexer decides this by comparing literal-buffer positions, which LEA
        tracks as ordered labels."""
        from . import lea_prims
        st = seg.st
        evs = seg.events
        cuts = []
        for idx in range(seg.start, len(evs)):
            x = evs[idx]
            if x.kind == "cur_token_write" and x.d.get("field") == "cur_token_byte_offset":
                cuts = []
            if x.kind in ("cursor_restore", "buffer_rollback"):
                cuts = []
            if x.kind == "add_literal" and (x.d.get("owner") == seg.name or x.fn == seg.name):
                cuts.append(x)
            if x.kind == "lasttok_write" and x.d.get("field") == "payload" and cuts:
                pass
            if x.kind != "emit" or not cuts:
                continue
            e = x
            pl = e.d.get("payload")
            if lea_prims.snap_of(e.d.get("byte")) is None:
                continue
            key = "%s|%s" % (short_fn(seg.name), self.sites.key(e).split("|", 1)[-1])
            self.bump("R-PAYLOAD-ESCAPE", "emissions", key)
            none = isinstance(pl, Enum) and pl.variant == "None"
            assumed = any("litpos" in repr(k) or "lit_end" in repr(k) or "lit_next" in repr(k) for k in st.bfacts)
            if not (none and assumed):      # (undecidable comparison of buffer positions on this path: no verdict)
                I.ob("R-PAYLOAD-ESCAPE", key, not none, self.sites.where(e),
                     "the token is emitted with its unquoted payload after %d literal section cut(s)" % len(cuts) if not none else
                     "the scanner skipped a quoting character (literal section cut at %s, empty=%s) but the token is emitted with "
                     "Payload::None: its text still contains the quoting; conditions: %s"
                     % (F.file_line(cuts[0].site or "?"), cuts[0].d.get("empty"), "; ".join(st.conds[-4:])[:240]))
            cuts = []

    # -- R-MACROSEP-EMIT (emission sites): a MacroSep is only emitted on a path where needs_macro_sep said yes -----
    def r_macrosep(self, I, seg):
        st = seg.st
        evs = seg.events
        for idx in range(seg.start, len(evs)):
            e = evs[idx]
            if e.kind not in ("emit", "insert_token") or e.d.get("owner") != seg.name:
                continue
            ts = variant_set(I, st, e.d["type"])
            if ts != {"MacroSep"}:
                continue
            how = "emit_token" if e.kind == "emit" else "insert_token"
            said_yes = False
            for x in evs[seg.start:idx]:
                if x.kind == "leave" and x.d.get("callee") == "macro::needs_macro_sep":
                    r = x.d.get("ret")
                    said_yes = isinstance(r, Const) and r.v is True
            if e.kind == "emit":
                # an appended MacroSep stands after the last DEFAULT token: that token's type is what the predicate
                # must have been asked about
                prev_ok = False
                shown = None
                for x in evs[seg.start:idx]:
                    if x.kind == "enter" and x.d.get("callee") == "macro::needs_macro_sep":
                        a0 = (x.d.get("args") or [None])[0]
                        shown = a0
                        prev_ok = False
                        if isinstance(a0, Enum) and a0.variant == "None":
                            prev_ok = any(k[:2] == ("X", "prev_token:default") for k in st.vfacts)
                        elif isinstance(a0, Enum) and a0.variant == "Some" and a0.args:
                            r = repr(a0.args[0].key()) if hasattr(a0.args[0], "key") else ""
                            prev_ok = "field:token_type" in r and "prev_token:default" in r and "('C', 'int', %d)" % st.tokens_epoch in r or \
                                ("field:token_type" in r and "prev_token:default" in r)
                self.bump("R-MACROSEP-EMIT", "emissions", "%s|%s|prev" % (short_fn(seg.name), how))
                I.ob("R-MACROSEP-EMIT", "%s|%s|prev" % (short_fn(seg.name), how), prev_ok, self.sites.where(e),
                     "needs_macro_sep is asked about the type of the last DEFAULT-channel token (look-behind accessor)" if prev_ok else
                     "the MacroSep is appended after the last DEFAULT token, but needs_macro_sep was asked about %r, which is not "
                     "provably that token's type: a separator can end up directly after ';', a label, %%then or %%else" % (shown,))
            key = "%s|%s|guard" % (short_fn(seg.name), how)
            self.bump("R-MACROSEP-EMIT", "emissions", key)
            I.ob("R-MACROSEP-EMIT", key, said_yes, self.sites.where(e),
                 "MacroSep is produced only on paths where needs_macro_sep(..) returned true" if said_yes else
                 "a MacroSep is emitted / inserted on a path where needs_macro_sep was not consulted or returned false: the "
                 "placement rule (never after ';', a label, %then, %else) is bypassed; conditions: " + "; ".join(st.conds[-3:])[:200])
            cs = variant_set(I, st, e.d["channel"]) or set()
            pl = e.d.get("payload")
            okc = cs == {"DEFAULT"} and isinstance(pl, Enum) and pl.variant == "None"
            I.ob("R-MACROSEP-EMIT", "%s|%s|args" % (short_fn(seg.name), how), okc, self.sites.where(e),
                 "MacroSep goes to the DEFAULT channel without payload" if okc else "MacroSep produced with channel %s payload %r" % (sorted(cs), pl))

    # -- R-GROUP: tokens that only exist as a group are emitted together, in one step ---------------------
    def r_groups(self, I, seg):
        st = seg.st
        evs = seg.events
        fn = short_fn(seg.name)
        own = [e for e in evs[seg.start:] if e.kind == "emit" and e.d.get("owner") == seg.name]
        if fn == "lex_datalines" and seg.out.kind == "val" and own:
            types = []
            for e in own:
                ts = variant_set(I, st, e.d["type"]) or {"?"}
                types.append("/".join(sorted(ts)))
            ok = types == ["DatalinesStart", "DatalinesData", "SEMI"]
            self.bump("R-GROUP", "groups", "datalines")
            I.ob("R-GROUP", "lex_datalines|start-data-terminator", ok, self.sites.where(own[0]),
                 "a datalines start is emitted together with its data token and its terminator" if ok else
                 "lex_datalines emits %s on a path: a datalines start must be followed immediately by its data token "
                 "and its (possibly virtual) terminator; conditions: %s" % (types, "; ".join(st.conds[-4:])[:240]))
        for idx in range(seg.start, len(evs)):
            e = evs[idx]
            if e.kind != "lasttok_write" or e.d.get("owner") != seg.name or e.d.get("field") != "token_type":
                continue
            vs = variant_set(I, st, e.d.get("value"))
            if vs != {"MacroLabel"}:
                continue
            nxt = None
            consumed = 0
            for x in evs[idx + 1:]:
                if x.kind == "consume":
                    consumed += 1
                if x.kind == "emit":
                    nxt = x
                    break
            ok = False
            why = "no token is emitted after the label in the same step"
            if nxt is not None:
                ts = variant_set(I, st, nxt.d["type"]) or set()
                cs = variant_set(I, st, nxt.d["channel"]) or set()
                ok = ts == {"COLON"} and cs == {"HIDDEN"} and consumed == 1
                why = "next token is %s on %s after %d consumed character(s)" % (sorted(ts), sorted(cs), consumed)
            self.bump("R-GROUP", "groups", "label")
            I.ob("R-GROUP", "%s|label-colon" % fn, ok, self.sites.where(e),
                 "a macro label is followed by its hidden colon" if ok else
                 "the token is retyped to MacroLabel but not followed by its one-character hidden COLON (%s)" % why)

    # -- R-NESTING-FLUSH ------------------------------------------------------------------------
    def r_nesting_flush(self, I, seg):
        """Scanners that count parentheses locally must write the count back (or pop) on every exit."""
        if seg.out.kind != "val":
            return
        b = self.fx.bodies.get(seg.name)
        if b is None:
            return
        info = self.__dict__.setdefault("_nest", {})
        if seg.name not in info:
            # the local counter: an integer local that is +=1 / -=1 in the body, in a function that also
            # contains a closure updating `pnl` of the top mode
            ids = set()
            writes_pnl = False
            for node, par in F.walk(b["hir"]):
                if node.get("k") == "AssignOp" and node.get("op") in ("AddAssign", "SubAssign"):
                    l = F.strip(node["l"])
                    r = F.lit_of(node["r"])
                    if l.get("k") == "Path" and "local" in l.get("res", {}) and r and r[1] == 1:
                        ids.add(l["res"]["local"])
                if node.get("k") == "Bind" and node.get("name") == "pnl" and "Mut" in (node.get("mode") or "") or \
                        (node.get("k") == "Struct" and any(f.get("name") == "pnl" and f.get("pat", {}).get("k") == "Bind" for f in node.get("fields", []) if "pat" in f)):
                    writes_pnl = True
            info[seg.name] = ids if writes_pnl else set()
        ids = info[seg.name]
        if not ids:
            return
        st = seg.st
        evs = seg.events[seg.start:]
        leave = evs[-1] if evs and evs[-1].kind == "leave" else None
        frame = leave.d.get("frame") if leave is not None else None
        if frame is None:
            return
        popped = any(e.kind == "pop" for e in evs)
        updated = any(e.kind == "mode_update" and "pnl" in [str(x) for x in (e.d.get("path") or ())] for e in evs)
        key = "%s|exit" % short_fn(seg.name)
        self.bump("R-NESTING-FLUSH", "scanners", short_fn(seg.name))
        for lid in ids:
            v = frame.get(lid)
            if v is None:
                continue
            zero = isinstance(v, Const) and v.v == 0
            if not zero and not isinstance(v, Const):
                k = ("eq",) + tuple(sorted([repr(v.key()), repr(Const("int", 0).key())]))
                zero = st.bfacts.get(k) is True
            ok = popped or updated or zero
            I.ob("R-NESTING-FLUSH", key, ok, F.file_line(b["span"]),
                 "exit path pops the mode, stores the parenthesis count into it, or the count is provably 0" if ok else
                 "exit path neither pops the mode nor stores local parenthesis count %r into it, and the path does not imply "
                 "the count is 0: the nesting level of the argument is lost; conditions: %s" % (v, "; ".join(st.conds[-5:])[:260]))

    # -- R-MARK-WS: a pending whitespace mark only spans whitespace ----------------------------------
    def mark_local(self, fname):
        c = self.__dict__.setdefault("_marks", {})
        if fname not in c:
            res = None
            b = self.fx.bodies.get(fname)
            if b:
                binds = {}
                for node, par in F.walk(b["hir"]):
                    if node.get("k") in ("LetCond", "Let") and node.get("init") is not None:
                        p = node.get("pat", {})
                        init = F.strip(node["init"])
                        if p.get("k") == "TupleStruct" and len(p.get("pats", [])) == 1 and p["pats"][0].get("k") == "Bind" \
                                and init.get("k") == "Path" and "local" in init.get("res", {}):
                            binds[p["pats"][0]["id"]] = init["res"]["local"]
                for node, par in F.walk(b["hir"]):
                    if node.get("k") == "MethodCall" and F.norm(node.get("def")) == "Lexer::emit_token_at_mark":
                        a = F.strip(node["args"][-1])
                        if a.get("k") == "Path" and a["res"].get("local") in binds:
                            res = binds[a["res"]["local"]]
            c[fname] = res
        return c[fname]

    def r_mark_ws(self, I, seg):
        lid = self.mark_local(seg.name)
        if lid is None:
            return
        st = seg.st
        evs = seg.events[seg.start:]
        # iterate over loop iterations: [loop_enter|loop_widen .. loop_back]
        cur = []
        for e in evs:
            if e.kind in ("loop_enter", "loop_widen") and e.fn == seg.name:
                cur = []
            elif e.kind == "consume":
                cur.append(e)
            elif e.kind == "loop_back" and e.fn == seg.name:
                frame = e.d.get("frame") or {}
                m = frame.get(lid)
                live = m is not None and not (isinstance(m, Enum) and m.variant == "None")
                if live and isinstance(m, Term):
                    f = st.vfacts.get(m.key())
                    if f is not None and f[0] is not None and set(f[0]) == {"None"}:
                        live = False   # the path established that the mark is None
                if live:
                    bad = None
                    for c in cur:
                        chars = c.d.get("chars")
                        if chars is None:
                            bad = c
                            break
                        for ch in chars:
                            if st.cf(ch).decide(("p", "is_whitespace")) is not True:
                                bad = c
                                break
                        if bad:
                            break
                    # dual clause: a whitespace character consumed in this iteration lies *behind* the mark, i.e. the
                    # mark was placed before it was consumed (otherwise the text token in front of the mark ends
                    # with that whitespace: `1\n` instead of `1` + hidden WS)
                    from . import lea_prims
                    q = None
                    if isinstance(m, Term) and m.op == "optmark":
                        q = m.args[0].v
                    elif isinstance(m, Enum) and m.variant == "Some" and m.args and isinstance(m.args[0], Tup) and m.args[0].items:
                        sn = lea_prims.snap_of(m.args[0].items[0])
                        if sn is not None and sn[1] == "main" and sn[3] == 0:
                            q = sn[2]
                    if q is not None:
                        late = None
                        for c in cur:
                            chars = c.d.get("chars")
                            if chars and c.d.get("pos") is not None and q > c.d["pos"] and \
                                    all(st.cf(ch).decide(("p", "is_whitespace")) is True for ch in chars):
                                late = c
                                break
                        key2 = "%s|ws-before-mark" % short_fn(seg.name)
                        I.ob("R-MARK-WS", key2, late is None, self.sites.where(late) if late else "",
                             "whitespace consumed in the iteration lies behind the pending mark" if late is None else
                             "a scanner iteration consumes a whitespace character (%s) and places the whitespace mark only "
                             "after it: the text token emitted at the mark ends with that whitespace instead of leaving it "
                             "to the hidden WS token; conditions: %s"
                             % (self.sites.key(late), "; ".join(st.conds[-4:])[:240]))
                    key = "%s|iteration" % short_fn(seg.name)
                    self.bump("R-MARK-WS", "scanners", short_fn(seg.name))
                    I.ob("R-MARK-WS", key, bad is None, self.sites.where(bad) if bad else "",
                         "while a whitespace mark is pending, the iteration consumed only whitespace" if bad is None else
                         "a scanner iteration consumes a non-whitespace character (%s) and leaves the pending whitespace mark "
                         "set: the hidden WS token emitted at the mark will contain it; conditions: %s"
                         % (self.sites.key(bad), "; ".join(st.conds[-4:])[:240]))
                cur = []

    # -- R-DELIM-SHAPE: delimited tokens carry non-overlapping opener and closer ---------------------
    DELIMS = {"CStyleComment": ("/*", "*/"), "MacroComment": ("%*", ";")}

    def r_delim_shape(self, I, seg):
        st = seg.st
        evs = seg.events
        for idx in range(seg.start, len(evs)):
            e = evs[idx]
            if e.kind != "emit" or e.d.get("owner") != seg.name:
                continue
            ts = variant_set(I, st, e.d["type"])
            if not ts or len(ts) != 1:
                continue
            t = next(iter(ts))
            if t not in self.DELIMS:
                continue
            opener, closer = self.DELIMS[t]
            # terminated path only: no Unterminated* error right after, and not at EOF
            unterminated = False
            for x in evs[idx + 1: idx + 40]:
                if x.kind == "error" and "Unterminated" in repr(x.d.get("err")):
                    unterminated = True
            cons = []
            for j in range(idx - 1, -1, -1):
                x = evs[j]
                if x.kind == "cur_token_write" and x.d.get("field") == "cur_token_byte_offset":
                    break
                if x.kind == "consume":
                    cons.append(x)
                if x.kind == "advance_at_eof":
                    unterminated = True
            cons.reverse()
            key = "%s|%s" % (short_fn(seg.name), t)
            self.bump("R-DELIM-SHAPE", "emissions", key)
            if unterminated and t != "MacroComment":
                continue

            def known(c, lit):
                chars = c.d.get("chars")
                if not chars or len(chars) != 1:
                    return False
                cf = st.cs.get(chars[0].key())
                return cf is not None and cf.inc == frozenset([lit])
            ok = len(cons) >= len(opener) + (0 if unterminated else len(closer))
            if ok:
                ok = all(known(cons[i], opener[i]) for i in range(len(opener)))
            if ok and not unterminated:
                ok = all(known(cons[len(cons) - len(closer) + i], closer[i]) for i in range(len(closer)))
            I.ob("R-DELIM-SHAPE", key, ok, self.sites.where(e),
                 "%s token consumed its opener %r and closer %r at distinct positions" % (t, opener, closer) if ok else
                 "%s is emitted on a path whose consumed text is not opener %r ... closer %r with disjoint delimiters "
                 "(%d consumption steps since the token start); conditions: %s" % (t, opener, closer, len(cons), "; ".join(st.conds[-5:])[:260]))

    # -- R-EXPECT-TABLE ------------------------------------------------------------------------------
    def r_expect_table(self, I, seg):
        if short_fn(seg.name) == "dispatch_macro_do" and seg.out.kind == "val":
            # iterative %do: `%do name = from %to ...` - the '=' after the loop variable is expected
            st = seg.st
            pushes = [e.d.get("mode") for e in seg.events[seg.start:] if e.kind == "push" and e.d.get("owner") == seg.name]
            # sibling arms of the iterative %do (`%do i=..` pushes, `%do %m=..` inserts under the call's modes) set up the
            # same from-expression: the MacroEval they create carries the same flags (joined in lea_engine.compute)
            made = pushes + [e.d.get("mode") for e in seg.events[seg.start:] if e.kind == "stack_insert" and e.d.get("owner") == seg.name]
            if any(isinstance(m, Enum) and m.variant == "MacroNameExpr" for m in made):
                for m in made:
                    if isinstance(m, Enum) and m.variant == "MacroEval":
                        self.bump("R-FAMILY-AGREE", "do_eval", re.sub(r"\s+", "", repr(m))[:160])
            seq = [abstract_mode(I, st, m) for m in reversed(pushes)]
            core = [m for m in seq if m != "Ws"]
            if "MacroNameExpr" in core:
                i = core.index("MacroNameExpr")
                ok = i + 2 < len(core) + 1 and core[i + 1:i + 2] == ["E(ASSIGN,DEFAULT)"] and "MacroEval" in core[i + 2:]
                self.bump("R-EXPECT-TABLE", "keywords", "KwmDo")
                I.ob("R-EXPECT-TABLE", "KwmDo|ASSIGN-AFTER-NAME", ok, F.file_line(self.fx.bodies[seg.name]["span"]),
                     "iterative %do: the loop variable is followed by an expected '=' and the start expression" if ok else
                     "iterative %%do: no ExpectSymbol(ASSIGN) between the loop variable and the start expression: an omitted "
                     "'=' is not diagnosed; pre-loaded modes in lexing order: %s" % " ".join(seq))
            return
        if short_fn(seg.name) != "dispatch_macro_call_or_stat" or seg.out.kind != "val":
            return
        st = seg.st
        evs = seg.events[seg.start:]
        enter = evs[0]
        kw = enter.d.get("args", [None, None])[1] if enter.kind == "enter" else None
        kws = variant_set(I, st, kw) if kw is not None else None
        if not kws:
            I.ob("R-EXPECT-TABLE", "nonconst-keyword", False, "", "keyword argument of dispatch_macro_call_or_stat is not a constant set on a path")
            return
        pushes = [e.d.get("mode") for e in evs if e.kind == "push"]
        seq = [abstract_mode(I, st, m) for m in reversed(pushes)]   # lexing order
        detail = " ".join(re.sub(r"\s+", "", repr(m))[:120] for m in reversed(pushes))   # with the flag values of each mode
        for k in sorted(kws):
            self.bump("R-FAMILY-AGREE", "seqs", "%s|%s" % (k, detail))
            self.bump("R-EXPECT-TABLE", "keywords", k)
            for clause, ok, why in expect_clauses(self, k, seq):
                I.ob("R-EXPECT-TABLE", "%s|%s" % (k, clause), ok, F.file_line(self.fx.bodies[seg.name]["span"]),
                     ("%s: %s" % (k, why)) if ok else "%s: %s; pre-loaded modes in lexing order: %s" % (k, why, " ".join(seq)))

    # -- R-PANIC: every reachable panic must be classified ----------------
    PANIC_CALLEES = ("core::panicking::", "std::rt::begin_panic", "std::rt::panic_fmt")
    UNWRAPS = ("std::option::Option::unwrap", "std::option::Option::expect", "std::result::Result::unwrap",
               "std::result::Result::expect")

    def panic_calls_of(self, fname):
        """Syntactic panic-capable call sites of a function body (assert expansions, panic!, unwrap/expect):
        the population R-PANIC decides; counted so that a rule that lost them fails its floor."""
        c = self.__dict__.setdefault("_pcalls", {})
        if fname not in c:
            n = 0
            b = self.fx.bodies.get(fname)
            if b:
                for node, _ in F.walk(b["hir"]):
                    if node.get("k") in ("Call", "MethodCall") and node.get("def"):
                        d = F.norm(node["def"])
                        if d.startswith(self.PANIC_CALLEES) or d in self.UNWRAPS:
                            n += 1
            c[fname] = n
        return c[fname]

    def r_panic(self, I, seg):
        if seg.level == "fn" and seg.name not in self.__dict__.setdefault("_pseen", set()):
            self._pseen.add(seg.name)
            self.bump("R-PANIC", "fns_analysed", short_fn(seg.name))
            for i in range(self.panic_calls_of(seg.name)):
                self.bump("R-PANIC", "panic_calls_in_analysed_fns", "%s#%d" % (short_fn(seg.name), i))
        if seg.out.kind != "panic":
            return
        # only the activation in which the panic call itself occurs reports it
        e = None
        for x in reversed(seg.events[seg.start:]):
            if x.kind == "panic":
                e = x
                break
        if e is None or e.fn != seg.name or seg.level != "fn":
            return
        msg = (e.d.get("msg") or "").strip()
        msg = re.sub(r"\s+", " ", msg)
        own = e.d.get("owner") or e.fn
        who = short_fn(e.fn) if own == e.fn else "%s>%s" % (short_fn(own), short_fn(e.fn))
        key = "%s|%s" % (who, msg[:140] or e.d.get("what"))
        self.bump("R-PANIC", "sites", key)
        I.ob("R-PANIC", key, False, F.file_line(e.site or "?"),
             "LEA cannot refute the path to this panic: %s; path conditions: %s" % (msg[:100], "; ".join(seg.st.conds[-6:])[:400]))

    # -- R-NEWLINE ---------------------------------------------------------
    def advance_by_exit_exact(self):
        """Does Cursor::advance_by account for exactly the characters it consumed when it runs out of input?
        (ok, why).  Accepted: the delegating form (no accounting of its own, one `self.advance()` per iteration), or
        no `char_offset` update ahead of the counting loop and a `char_offset` update next to every early exit."""
        c = self.__dict__
        if "_abx" not in c:
            from .rules_struct import live_walk, is_self_field, field_chain
            b = self.fx.bodies.get("cursor::Cursor::advance_by")
            res = (False, "Cursor::advance_by not found")
            if b:
                def line(x):
                    try:
                        return int((x.get("sp") or "").split(":")[-2])
                    except (ValueError, IndexError):
                        return -1
                loops = [x for x, _ in live_walk(b["hir"]) if x.get("k") == "Loop"]
                adds = [(x, par) for x, par in live_walk(b["hir"]) if x.get("k") in ("AssignOp", "Assign")
                        and is_self_field(x["l"], "char_offset")]
                nexts = [x for x, _ in live_walk(b["hir"]) if x.get("k") == "MethodCall" and x.get("name") == "next"
                         and field_chain(x["recv"])[-1] == "chars"]
                if len(loops) != 1:
                    res = (False, "advance_by has %d loops" % len(loops))
                elif not adds and not nexts:
                    res = (True, "advance_by delegates to advance()")
                else:
                    lp = loops[0]
                    ahead = [x for x, par in adds if not any(p is lp for p in par) and 0 <= line(x) < line(lp)]
                    exits = [(x, par) for x, par in live_walk(lp) if x.get("k") == "Ret"]
                    bare = []
                    for x, par in exits:
                        blk = next((p for p in reversed(par) if p.get("k") == "Block"), None)
                        has = blk is not None and any(y.get("k") in ("AssignOp", "Assign") and is_self_field(y["l"], "char_offset")
                                                      for st_ in blk.get("stmts", []) for y, _ in F.walk(st_))
                        if not has:
                            bare.append(x)
                    if ahead and exits:
                        res = (False, "char_offset is advanced ahead of the counting loop and the loop returns early when the input "
                                      "ends: the characters that were not there are counted")
                    elif bare:
                        res = (False, "an early exit of the counting loop does not account for the characters consumed so far")
                    else:
                        res = (True, "every early exit of the counting loop accounts for the characters consumed so far")
            c["_abx"] = res
        return c["_abx"]

    def advance_short(self, I, st, e):
        """R-ADVANCE-SHORT: an advance_by(n) call that can meet the end of the input before n characters relies on the
        early exit of Cursor::advance_by; that exit must then be exact (char offset = characters consumed)."""
        chars, cnt = e.d.get("chars"), e.d.get("count")
        if e.d.get("via") != "advance_by" or chars is None or not (isinstance(cnt, Const) and cnt.t == "int") or len(chars) >= cnt.v:
            return
        ok, why = self.advance_by_exit_exact()
        key = "%s|short" % self.sites.key(e)
        I.ob("R-ADVANCE-SHORT", key, ok, self.sites.where(e),
             ("advance_by(%d) can run out of input here; %s" % (cnt.v, why)) if ok else
             ("advance_by(%d) is called where fewer than %d characters may remain (end of input known on the path), and %s: "
              "the char offset of everything recorded afterwards (EOF token, line starts, errors) is past the end of the text"
              % (cnt.v, cnt.v, why)))

    def may_nl(self, I, st, e, seg_events=None):
        chars = e.d.get("chars")
        self.advance_short(I, st, e)
        if chars is None:
            cls = advance_class(I, st, e, seg_events)
            key = self.sites.key(e)
            self.bump("R-ADVANCE-EVIDENCE", "sites", key)
            I.ob("R-ADVANCE-EVIDENCE", key, cls is not None, self.sites.where(e),
                 ("advance_by(%r): %s" % (e.d.get("count"), cls["why"])) if cls else
                 ("advance_by(%r) is not dominated on this path by look-ahead evidence for the characters it skips; conditions: %s"
                  % (e.d.get("count"), "; ".join(st.conds[-5:])[:300])))
            return cls is None or cls.get("nl", True)
        if any(st.cf(c).may_be("\n") for c in chars):
            if e.d.get("via") == "advance_by":
                lit = str_evidence(st, e.d.get("pos"), len(chars))
                key = self.sites.key(e)
                self.bump("R-ADVANCE-EVIDENCE", "sites", key)
                I.ob("R-ADVANCE-EVIDENCE", key, lit is not None, self.sites.where(e),
                     ("advance_by(%d): the path compared the next %d chars with %r" % (len(chars), len(chars), lit)) if lit else
                     ("advance_by(%d) skips characters the path never looked at; conditions: %s" % (len(chars), "; ".join(st.conds[-5:])[:300])))
                if lit is not None and "\n" not in lit:
                    return False
            return True
        if e.d.get("via") == "advance_by":
            key = self.sites.key(e)
            self.bump("R-ADVANCE-EVIDENCE", "sites", key)
            I.ob("R-ADVANCE-EVIDENCE", key, True, self.sites.where(e), "advance_by(%d): every skipped char was inspected (pattern / peek_next) on the path" % len(chars))
        return False

    def r_newline(self, I, seg):
        st = seg.st
        pending = None
        top_level = (seg.name == "Lexer::lex_token")
        viol = []    # (consume event, message): dropped again if a later cursor restore un-consumes the character

        def bad(ev, msg):
            viol.append((ev, msg))
        for e in seg.events[seg.start:]:
            k = e.kind
            if k == "consume":
                key = self.sites.key(e)
                self.bump("R-NEWLINE", "consume_sites", key)
                if pending is not None:
                    bad(pending, "a possibly-'\\n' character is consumed and more input is consumed before add_line()")
                    pending = None
                if self.may_nl(I, st, e, seg.events[seg.start:]):
                    pending = e
                else:
                    I.ob("R-NEWLINE", key, True, self.sites.where(e), "consumed character(s) cannot be a line feed on this path")
            elif k == "add_line":
                key = self.sites.key(e)
                self.bump("R-NEWLINE", "add_line_sites", key)
                if pending is not None:
                    I.ob("R-NEWLINE", self.sites.key(pending), True, self.sites.where(pending),
                         "line feed consumed, add_line() follows before any other consumption")
                    pending = None
            elif k == "cur_token_write" and e.d.get("field") == "cur_token_line":
                if pending is not None:
                    bad(pending, "a possibly-'\\n' character was consumed and a new token is started before add_line()")
                    pending = None
            elif k in ("cursor_restore",):
                pending = None
                p = e.d.get("to_pos")
                if p is not None:
                    # the speculative walk is taken back: characters at or after p are not consumed after all
                    viol = [(ev, m) for ev, m in viol if ev.d.get("pos", -1) < p]
        if pending is not None and (top_level or seg.out.kind == "loopback"):
            bad(pending, "a possibly-'\\n' character is consumed and the scanner iteration ends without add_line()")
        if viol and seg.out.kind == "loopback":
            # the path stops at a back-edge; if the function that consumed puts the cursor back later on, whether these
            # characters stay consumed is decided on the paths that leave the loop (they repeat the same consumption)
            viol = [(ev, m) for ev, m in viol if not self.fn_restores_cursor(ev.d.get("owner") or "")]
        for ev, m in viol:
            I.ob("R-NEWLINE", self.sites.key(ev), False, self.sites.where(ev), m)

    def fn_restores_cursor(self, fname):
        c = self.__dict__.setdefault("_restores", {})
        if fname not in c:
            r = False
            b = self.fx.bodies.get(fname)
            if b:
                for node, _ in F.walk(b["hir"]):
                    if node.get("k") == "Assign":
                        l = F.strip(node["l"])
                        if l.get("k") == "Field" and l.get("name") == "cursor":
                            r = True
                            break
            c[fname] = r
        return c[fname]

    # -- emissions: R-CHANNEL ----------------------------------------------
    def r_emit_rules(self, I, seg):
        st = seg.st
        for e in seg.events[seg.start:]:
            if e.kind == "emit" and e.fn == seg.name or (e.kind == "emit" and seg.name.endswith("::" + "add_token")):
                pass
            if e.kind != "emit":
                continue
            # judge each emission in the activation of the function that called emit_token/add_token:
            # the event's fn is WorkTokenizedBuffer caller chain top; use the nearest enclosing 'enter'
            owner = emit_owner(seg, e)
            if owner != seg.name:
                continue
            self.check_channel(I, st, e, owner)
        for e in seg.events[seg.start:]:
            if e.kind == "push" and emit_owner(seg, e) == seg.name:
                self.check_expect_ctor(I, st, e, seg.name)

    def check_channel(self, I, st, e, owner):
        ch, ty = e.d["channel"], e.d["type"]
        key = "%s|%s" % (short_fn(owner), self.sites.key(e).split("|", 1)[-1])
        # forwarded ExpectSymbol pair (checked at the constructor sites)
        if is_expect_field(ch) and is_expect_field(ty):
            I.ob("R-CHANNEL", key + "|forwarded", True, self.sites.where(e), "channel/type forwarded from an ExpectSymbol mode; pairs are checked at its constructors")
            self.bump("R-CHANNEL", "emit_sites", key)
            return
        cs, ts = variant_set(I, st, ch), variant_set(I, st, ty)
        self.bump("R-CHANNEL", "emit_sites", key)
        if cs is None or ts is None:
            I.ob("R-CHANNEL", key + "|nonconst", False, self.sites.where(e),
                 "token channel/type is not a constant set on this path (channel=%r type=%r)" % (ch, ty))
            return
        bad = []
        for c in cs:
            for t in ts:
                if (t in COMMENT_TYPES) != (c == "COMMENT"):
                    bad.append((c, t, "comment types and the COMMENT channel must coincide"))
                elif t == "WS" and c != "HIDDEN":
                    bad.append((c, t, "whitespace must be hidden"))
                elif c == "HIDDEN" and t not in HIDDEN_OK:
                    bad.append((c, t, "only WS, CatchAll, label colons and %str/%nrstr wrappers may be hidden"))
                elif c == "HIDDEN" and t == "COLON" and short_fn(owner) != "lex_maybe_macro_call_args_or_label":
                    bad.append((c, t, "a hidden COLON is only the macro-label colon"))
                elif c == "HIDDEN" and t in ("LPAREN", "RPAREN"):
                    bad.append((c, t, "hidden parentheses are only the %str/%nrstr wrappers (ExpectSymbol(_, HIDDEN))"))
        for c, t, why in bad[:3]:
            I.ob("R-CHANNEL", "%s|%s/%s" % (key, c, t), False, self.sites.where(e), "emits %s on channel %s: %s" % (t, c, why))
        if not bad:
            I.ob("R-CHANNEL", key, True, self.sites.where(e), "types %s on channels %s satisfy the channel policy" % (sorted(ts)[:6], sorted(cs)))

    def check_expect_ctor(self, I, st, e, owner):
        m = e.d.get("mode")
        if not (isinstance(m, Enum) and m.variant == "ExpectSymbol"):
            return
        key = "%s|ExpectSymbol" % short_fn(owner)
        self.bump("R-9XXX", "expect_symbol_ctors", self.sites.key(e))
        ts = variant_set(I, st, m.args[0]) if m.args else None
        cs = variant_set(I, st, m.args[1]) if len(m.args) > 1 else None
        if len(m.args) == 2 and is_expect_field(m.args[0]) and is_expect_field(m.args[1]):
            I.ob("R-9XXX", key + "|forwarded", True, F.file_line(e.site), "ExpectSymbol re-pushed with the fields of an existing ExpectSymbol mode")
            return
        if ts is None or cs is None:
            I.ob("R-9XXX", key + "|nonconst", False, self.sites.where(e), "ExpectSymbol constructed with non-constant arguments %r" % (m,))
            return
        for t in ts:
            ok = t in EXPECT_SYMBOLS
            I.ob("R-9XXX", "%s|%s" % (key, t), ok, self.sites.where(e),
                 "ExpectSymbol(%s): lex_expected_token %s" % (t, "has an arm for it" if ok else "has NO arm for it -> InternalErrorUnexpectedTokenType (9006)"))
            for c in cs:
                okc = c == "DEFAULT" or (c == "HIDDEN" and t in ("LPAREN", "RPAREN") and short_fn(owner) == "expect_macro_str_call_args")
                I.ob("R-CHANNEL", "%s|%s/%s" % (key, c, t), okc, self.sites.where(e),
                     "ExpectSymbol(%s, %s) %s" % (t, c, "allowed" if okc else "puts a delimiter on a non-default channel outside %str/%nrstr"))

    # -- R-9XXX: internal error emissions ------------------------------------
    def r_internal_errors(self, I, seg):
        st = seg.st
        for e in seg.events[seg.start:]:
            if e.kind != "error":
                continue
            if emit_owner(seg, e) != seg.name:
                continue
            ks = variant_set(I, st, e.d.get("err"))
            if not ks:
                continue
            for kname in ks:
                if kname in INTERNAL_ERRORS:
                    key = "%s|%s" % (short_fn(seg.name), kname)
                    I.ob("R-9XXX", key, False, self.sites.where(e),
                         "path reaches emission of internal error %s (%d); conditions: %s" % (
                             kname, INTERNAL_ERRORS[kname], "; ".join(st.conds[-5:])[:300]))

    # -- R-CKPT: checkpoint typestate ------------------------------------------
    def r_ckpt(self, I, seg):
        for e in seg.events[seg.start:]:
            if e.kind != "ckpt" or emit_owner(seg, e) != seg.name:
                continue
            op, prior = e.d.get("op"), e.d.get("prior")
            key = "%s|%s" % (short_fn(seg.name), op)
            self.bump("R-CKPT", "ckpt_ops", key)
            if op == "set":
                ok = prior == "none"
                I.ob("R-CKPT", key + "|CK1", ok or prior == "unk", self.sites.where(e),
                     "checkpoint() with prior state '%s'" % prior if ok or prior == "unk" else
                     "checkpoint() while a checkpoint is already live (debug_assert fires; release overwrites it)")
            elif op == "take":
                ok = prior != "none"
                I.ob("R-CKPT", key + "|CK1", ok, self.sites.where(e),
                     "rollback() with prior state '%s'" % prior if ok else "rollback() without a live checkpoint -> InternalErrorMissingCheckpoint (9001)")


def abstract_mode(I, st, m):
    if not isinstance(m, Enum):
        return "?"
    v = m.variant
    if v == "WsOrCStyleCommentOnly":
        return "Ws"
    if v == "ExpectSymbol":
        t = variant_set(I, st, m.args[0]) if m.args else None
        c = variant_set(I, st, m.args[1]) if len(m.args) > 1 else None
        return "E(%s,%s)" % ("|".join(sorted(t)) if t else "?", "|".join(sorted(c)) if c else "?")
    if v == "ExpectSemiOrEOF":
        return "Semi"
    return v


FUNC_NOARG = {"KwmSysmexecdepth"}
SCAN_SUBSTR = re.compile(r"^Kwm(Q|K|QK)?(Scan|Substr)$")


def expect_clauses(R, kw, seq):
    """Clauses of C10/C14 for keyword kw against the pre-loaded mode sequence (lexing order)."""
    out = []
    fx = R.fx
    funcs = R.__dict__.get("_funcs")
    if funcs is None:
        # argument-taking built-in functions: subset variants below the macro statement range
        a = fx.adts.get("token_type::TokenType")
        discr = {v["name"]: v["discr"] for v in a["variants"]}
        rng = None
        for c in fx.bodies:
            if c.endswith("MACRO_STAT_TOKEN_TYPE_RANGE"):
                b = fx.bodies[c]
                names = [F.const_of(x) for x, _ in F.walk(b["hir"]) if x.get("k") == "Path" and F.const_of(x)]
                ds = [discr[n.split("::")[-1]] for n in names if n and n.split("::")[-1] in discr]
                if ds:
                    rng = min(ds)
        funcs = set()
        if rng is not None:
            for n, d in discr.items():
                if n.startswith("Kwm") and d < rng and n not in FUNC_NOARG:
                    funcs.add(n)
        R._funcs = funcs
    core = [m for m in seq if m != "Ws"]
    if kw in funcs:
        ch = "HIDDEN" if kw in ("KwmStr", "KwmNrStr") else "DEFAULT"
        ok = len(core) >= 1 and core[0] == "E(LPAREN,%s)" % ch
        out.append(("LPAREN-FIRST", ok, "argument-taking built-in expects '(' first on channel %s" % ch if ok else
                    "argument-taking built-in does NOT expect '(' first on channel %s (no MissingExpectedLParen / unbalanced call)" % ch))
        depth = 0
        bal = True
        for m in core:
            if m.startswith("E(LPAREN"):
                depth += 1
            elif m.startswith("E(RPAREN"):
                depth -= 1
                if depth < 0:
                    bal = False
        out.append(("PARENS-BALANCED", bal and depth == 0, "expected parentheses are balanced" if bal and depth == 0 else "expected '(' / ')' modes are not balanced"))
    if SCAN_SUBSTR.match(kw):
        ok = False
        for i, m in enumerate(core):
            if m == "MacroCallValue":
                ok = i + 1 < len(core) and core[i + 1].startswith("E(COMMA,")
                break
        out.append(("COMMA-AFTER-FIRST-ARG", ok, "the first argument is followed by an expected ','" if ok else
                    "the first argument of %scan/%substr is NOT followed by ExpectSymbol(COMMA): an omitted ',' is not diagnosed"))
    if kw == "KwmLet":
        ok = "MacroNameExpr" in core and "E(ASSIGN,DEFAULT)" in core and core.index("MacroNameExpr") < core.index("E(ASSIGN,DEFAULT)")
        out.append(("ASSIGN-AFTER-NAME", ok, "name expression is followed by an expected '='" if ok else "no ExpectSymbol(ASSIGN) after the variable name"))
    if kw in ("KwmCopy", "KwmSysmacdelete"):
        ok = "MacroNameExpr" in core and "E(FSLASH,DEFAULT)" in core and core.index("MacroNameExpr") < core.index("E(FSLASH,DEFAULT)")
        out.append(("FSLASH-AFTER-NAME", ok, "macro name is followed by an expected '/'" if ok else "no ExpectSymbol(FSLASH) after the macro name"))
    if kw in ("KwmEnd", "KwmReturn", "KwmUntil", "KwmWhile", "KwmTo", "KwmBy", "KwmLet", "KwmPut", "KwmGoto", "KwmMend",
              "KwmRun", "KwmSysmstoreclear", "KwmSysexec", "KwmCopy", "KwmSysmacdelete", "KwmSyscall", "KwmMacro",
              "KwmAbort", "KwmDisplay", "KwmInput", "KwmSymdel", "KwmSyslput", "KwmSysrput", "KwmWindow"):
        ok = len(core) >= 1 and core[-1] == "Semi"
        out.append(("SEMI-LAST", ok, "the statement ends in an expected ';' or end of input" if ok else "the pre-loaded sequence does not end in ExpectSemiOrEOF: a missing ';' is not diagnosed"))
    if kw in ("KwmUntil", "KwmWhile"):
        ok = len(core) >= 4 and core[0] == "E(LPAREN,DEFAULT)" and "E(RPAREN,DEFAULT)" in core
        out.append(("COND-PARENS", ok, "%until/%while condition is wrapped in expected parentheses" if ok else "%until/%while does not expect '(' ... ')' around its condition"))
    return out


def emit_owner(seg, e):
    return e.d.get("owner")


def is_expect_field(v):
    return isinstance(v, Term) and v.op.startswith("ExpectSymbol.")


def str_evidence(st, pos, n):
    """A path fact `<prefix of the remaining text at pos> == "<literal of n chars>"`: the literal."""
    needle = "'as_str', ('C', 'str', 'main'), ('C', 'int', %d)" % pos
    for k, v in st.bfacts.items():
        sw = (isinstance(k, tuple) and len(k) == 2 and k[0] == "b" and isinstance(k[1], tuple) and len(k[1]) >= 4
              and k[1][0] == "X" and str(k[1][1]).endswith("str::starts_with"))
        if v is True and isinstance(k, tuple) and k and (k[0] == "eq" or sw):
            r = repr(k)
            if needle in r:
                if sw and needle not in repr(k[1][2]):
                    continue    # starts_with(<remaining text at pos>, literal): the text must be the receiver
                m = re.findall(r"\('C', 'str', '([^']*)'\)", r.replace("'main'", ""))
                for lit in m:
                    if len(lit) == n and lit != "":
                        return lit
    return None


def la_consumes_clean(I, seg_events, st, owner):
    """All characters consumed by look-ahead clones inside the activation of `owner` exclude line feeds."""
    depth = 0
    n = 0
    for e in seg_events:
        if e.kind == "la_consume":
            n += 1
            chars = e.d.get("chars")
            if chars is None:
                return False, n
            if any(st.cf(c).may_be("\n") for c in chars):
                return False, n
    return n > 0, n


def advance_class(I, st, e, seg_events=None):
    """Character class consumed by advance_by(<count>) from the evidence on the path (R-ADVANCE-EVIDENCE).
    Returns {"cls": name, "nl": bool, "why": text} or None when no evidence links the count to look-ahead."""
    cnt = e.d.get("count")
    r = repr(cnt)
    pos = e.d.get("pos")
    here = "('main', %d)" % pos
    if r.startswith("proj1(is_macro_amp('main', %d))" % pos):
        return {"cls": "&", "nl": False, "why": "count is the ampersand run length is_macro_amp measured at this position"}
    if "is_macro_eval_mnemonic('main', %d)" % pos in r and "bin:Add(1, proj1(" in r:
        return {"cls": "letters", "nl": False, "why": "1 + extra chars of the mnemonic is_macro_eval_mnemonic matched at this position"}
    m = re.search(r"item_of\(resolve_ops\(proj1\(is_macro_amp\('main', (\d+)\)\)", r)
    if m and "pow" in r and int(m.group(1)) <= pos:
        return {"cls": "&", "nl": False, "why": "2^k chunk of the ampersand run counted by is_macro_amp at position %s (contract resolve_ops_sum)" % m.group(1)}
    if "as_str('main', %d)" % pos in r and ("numlen(" in r or "position(" in r):
        return {"cls": "numeric", "nl": False, "why": "length of the numeric prefix parsed from the remaining text at this position"}
    if "len(as_str('main', %d))" % pos in r:
        for k, v in st.vfacts.items():
            rk = repr(k)
            if "position" in rk and "'as_str', ('C', 'str', 'main'), ('C', 'int', %d)" % pos in rk and v[0] is not None and set(v[0]) == {"None"}:
                return {"cls": "digits", "nl": False, "why": "no non-digit byte exists in the remaining text (position(..) is None), so its whole length is digits"}
    m = re.match(r"^(?:bin:Add\()?bin:Sub\(char_offset\('main', (\d+)\), char_offset\('main', (\d+)\)\)(?:, (\d+)\))?$", r)
    if m and seg_events is not None:
        p2, p1, k = int(m.group(1)), int(m.group(2)), int(m.group(3) or 0)
        if p1 - k == pos and p2 >= p1:
            ok, n = la_consumes_clean(I, seg_events, st, e.d.get("owner"))
            if ok:
                return {"cls": "lookahead", "nl": False,
                        "why": "char-offset distance travelled by a look-ahead clone started at this position (%d look-ahead steps, none can be a line feed)" % n}
    return None


# ---------------------------------------------------------------------------
# whole-path rules (on the pruned representatives of lex_token paths)

def path_rules(fx, I, R, mode, ckpt, outs):
    obs = {}

    def ob(rule, key, ok, site="", detail=""):
        k = (rule, key)
        cur = obs.get(k)
        if cur is None:
            obs[k] = {"rule": rule, "key": key, "ok": bool(ok), "site": site, "detail": detail, "n": 1}
        else:
            cur["n"] += 1
            if cur["ok"] and not ok:
                cur.update(ok=False, site=site, detail=detail)

    seeds = []
    for o in outs:
        if o.kind != "ret":
            continue
        st = o.st
        evs = st.events
        ckpt_path_rules(ob, mode, o, None)
        if st.ckpt == "some" and any(e.kind == "ckpt" and e.d.get("op") == "set" for e in evs):
            seeds.append(st)
        if mode == "Default":
            pending_rule(fx, I, ob, o)
        if mode in ("MacroCallValue", "MacroStrQuotedExpr", "MacroEval"):
            depth_guard_rule(I, ob, mode, o)
        # R-PROGRESS: every lex_token path consumes input or changes the mode stack
        # position labels are monotone in consumption; a rollback rewinds to the snapshot's label
        consumed = st.cursors["main"].pos > 0
        stack_changed = any(e.kind in ("push", "pop", "stack_insert", "stack_truncate") and not (e.kind == "stack_truncate" and e.d.get("noop")) for e in evs)
        last_fn = [e.callee for e in evs if e.kind == "enter" and e.d.get("depth", 9) == 2 and e.callee != "Lexer::mode"]
        handler = short_fn(last_fn[0]) if last_fn else "lex_token"
        arm = ""
        for e in evs:
            if e.kind == "arm" and e.fn not in ("Lexer::lex_token", "Lexer::mode") and not e.d["match"].get("exp"):
                arm = pat_text(e.d["match"]["arms"][e.d["arm"]]["pat"])
                break
        key = "%s|%s|%s" % (mode, handler, arm)
        ob("R-PROGRESS", key, consumed or stack_changed, "",
           "lex_token path in mode %s (handler %s, first arm %s) %s" % (
               mode, handler, arm, "makes progress" if (consumed or stack_changed) else
               "neither consumes input nor changes the mode stack: the main loop spins (debug: 9008, release: hang); conditions: %s" % "; ".join(st.conds[-6:])[:300]))
        orphan_rule(I, R, ob, mode, o)
    reg = explore_regions(I, seeds, ob)
    obs[("_meta", "regions|" + mode)] = {"rule": "_meta", "key": "regions|" + mode, "ok": True, "site": "",
                                          "detail": json.dumps(reg), "n": 1}
    return obs


def slice_ends(k):
    """Position labels (a, b) of `is_empty(str_slice(<source>, a, b))` given the fact key."""
    import re
    r = repr(k)
    if "str_slice" not in r:
        return None
    ps = re.findall(r"\('X', 'remaining_len', \('C', 'str', 'main'\), \('C', 'int', (\d+)\)\)", r)
    if len(ps) == 2:
        return int(ps[0]), int(ps[1])
    return None


def orphan_rule(I, R, ob, mode, o):
    """R-ORPHAN: every character consumed in a lex_token step belongs to a token emitted in that step (its start
    offset is at or before the character).  A token's text runs up to the next token's start, and the next step
    re-anchors the token start at the cursor, so a character consumed without such a token silently becomes part
    of whatever token precedes it."""
    from . import lea_prims
    st = o.st
    open_ = []   # unclaimed consume events
    # position equalities learnt on the path: an empty source slice [a, b) means a == b
    same = {}
    for k, v in st.bfacts.items():
        if v is True and isinstance(k, tuple) and "is_empty" in repr(k[:2]) and "str_slice" in repr(k):
            ab = slice_ends(k)
            if ab and ab[0] is not None and ab[1] is not None:
                same[ab[1]] = min(ab[0], same.get(ab[1], ab[0]))
    for e in st.events:
        if e.kind == "consume":
            open_.append(e)
        elif e.kind == "emit":
            sn = lea_prims.snap_of(e.d.get("byte"))
            if sn is None:
                open_ = []      # unknown start: cannot attribute, stay silent
            else:
                p0 = min(sn[2], same.get(sn[2], sn[2]))
                open_ = [c for c in open_ if c.d.get("pos", 0) < p0]
        elif e.kind == "cursor_restore":
            tp = e.d.get("to_pos")
            open_ = [] if tp is None else [c for c in open_ if c.d.get("pos", 0) < tp]
        elif e.kind == "lookbehind_mut":
            open_ = []      # the last token is re-typed: what was consumed extends it by design (R-RETYPE-GUARD)
    seen = set()
    for c in open_:
        key = "%s|%s" % (mode, R.sites.key(c))
        if key in seen:
            continue
        seen.add(key)
        ob("R-ORPHAN", key, False, R.sites.where(c),
           "mode %s: a character consumed here is not covered by any token emitted in the same step (it is appended "
           "to the text of the previous token); conditions: %s" % (mode, "; ".join(st.conds[-6:])[:300]))
    ob("R-ORPHAN", "%s|paths" % mode, True, "", "every consumed character is covered by a token of its step")


def depth_guard_rule(I, ob, mode, o):
    """R-DEPTH-GUARD: an argument / expression mode is terminated by ',' or ')' only at parenthesis depth 0
    (MacroEval: ',' also when parentheses do not mask commas)."""
    st = o.st
    for e in st.events:
        if e.kind != "pop" or not e.d.get("known"):
            continue
        m = e.d.get("mode")
        if not (isinstance(m, Enum) and m.variant == mode):
            continue
        pos = e.d.get("pos")
        cf = st.cs.get(("LA", I.stream_of(st, "main"), pos))
        if cf is None or cf.inc is None or not (cf.inc <= {",", ")"}):
            return
        ch = "/".join(sorted(cf.inc))
        zero = False
        nomask = False
        for k, v in st.bfacts.items():
            if not (isinstance(k, tuple) and k and k[0] == "eq"):
                continue
            r = repr(k)
            if ("%s.pnl@entry" % mode) in r and "('C', 'int', 0)" in r and v is True:
                zero = True
            if "bin:BitAnd" in r and "('C', 'int', 16)" in r and "('C', 'int', 0)" in r and v is True:
                nomask = True
        ok = zero or (mode == "MacroEval" and "," in cf.inc and ")" not in cf.inc and nomask)
        ob("R-DEPTH-GUARD", "%s|%s" % (mode, ch), ok, F.file_line(e.d.get("osite") or e.site or "?"),
           "mode %s is closed by %r only under a depth-zero test" % (mode, ch) if ok else
           "mode %s is closed by a %r although the path never established parenthesis depth 0: a delimiter nested in "
           "parentheses ends the argument; conditions: %s" % (mode, ch, "; ".join(st.conds[-6:])[:300]))
        return


def pending_rule(fx, I, ob, o):
    """R-PENDING: on macro-free open-code paths the statement flag follows the last DEFAULT token."""
    st = o.st
    evs = st.events
    for e in evs:
        if e.kind == "enter" and e.callee in ("Lexer::lex_macro_identifier", "Lexer::lex_macro_comment", "Lexer::lex_macro_call"):
            return
        if e.kind == "leave" and e.callee == "Lexer::lex_macro_var_expr" and isinstance(e.d.get("ret"), Const) and e.d["ret"].v is True:
            return
    last_def = None
    for e in evs:
        if e.kind == "emit":
            cs = variant_set(I, st, e.d["channel"])
            if cs == {"DEFAULT"}:
                last_def = e
    if last_def is None:
        return
    ts = variant_set(I, st, last_def.d["type"])
    if not ts:
        return
    sets = [e for e in evs if e.kind == "pending" and e.d.get("op") == "set"]
    val = sets[-1].d.get("value") if sets else None
    arm = ""
    for e in evs:
        if e.kind == "arm" and e.fn == "Lexer::dispatch_mode_default" and not e.d["match"].get("exp"):
            arm = pat_text(e.d["match"]["arms"][e.d["arm"]]["pat"])
            break
    want = False if ts == {"SEMI"} else (True if "SEMI" not in ts else None)
    if want is None:
        return
    got = val.v if isinstance(val, Const) else None
    key = "dispatch_mode_default|%s|last=%s" % (arm, "SEMI" if want is False else "other")
    ob("R-PENDING", key, got == want, F.file_line(last_def.d.get("osite") or last_def.site or "?"),
       "after a statement-%s token the pending-statement flag is %s" % ("closing ';'" if want is False else "opening/continuing", want) if got == want else
       "open-code path (arm %s) whose last DEFAULT token is %s leaves the pending-statement flag %s (expected %s): a following "
       "`* ...;` is mis-predicted" % (arm, sorted(ts)[:3], got, want))


# ---------------------------------------------------------------------------
# checkpoint discipline on whole paths + exploration of live-checkpoint regions

OWNERS = ("MaybeMacroCallArgsOrLabel", "MaybeMacroCallArgAssign", "MacroCallArgOrValue")
STRICT_OWNERS = ("MaybeMacroCallArgsOrLabel", "MaybeMacroCallArgAssign")


def stack_names(st):
    return [m.variant if isinstance(m, Enum) else "?" for m in st.stack]


def ckpt_path_rules(ob, mode, o, region):
    """CK2/CK3 and owner-entry on the end state of one lex_token path."""
    st = o.st
    names = stack_names(st)
    tag = "region" if region else "entry"
    if st.ckpt == "some":
        has_owner = any(n in OWNERS for n in names)
        ob("R-CKPT", "CK2|%s|live-checkpoint-has-owner" % mode, has_owner or (region and not st.below_pops and mode not in STRICT_OWNERS and st.base >= 0 and region == "inherited"),
           "", ("lex_token path in mode %s ends with a live checkpoint and an owner mode on the stack %s" % (mode, names[-4:])) if has_owner else
           ("lex_token path in mode %s ends with a live checkpoint but no owner mode (%s) on the known stack %s: the checkpoint "
            "is never cleared (stale rollback target; next checkpoint() asserts); conditions: %s" % (mode, "/".join(STRICT_OWNERS), names[-5:], "; ".join(st.conds[-5:])[:300])))
    if mode in STRICT_OWNERS:
        # the owner's handler always pops its own mode: the checkpoint must be resolved on every path
        popped_self = any(e.kind in ("pop", "stack_truncate") for e in st.events)
        if popped_self:
            ob("R-CKPT", "CK3|%s|owner-resolves" % mode, st.ckpt == "none", "",
               "owner handler %s %s" % (mode, "clears or rolls back the checkpoint on this path" if st.ckpt == "none" else
                                        "pops its mode but leaves the checkpoint live; conditions: %s" % "; ".join(st.conds[-5:])[:300]))
    # the MakeCheckpoint marker is only ever placed directly above [MaybeMacroCallArgAssign, WsOrCStyleCommentOnly]
    for i, n in enumerate(names):
        if n == "MakeCheckpoint" and any(e.kind in ("push", "stack_insert") and isinstance(e.d.get("mode"), Enum) and e.d["mode"].variant == n for e in st.events):
            ok = i >= 2 and names[i - 2:i] == ["MaybeMacroCallArgAssign", "WsOrCStyleCommentOnly"]
            ob("R-CKPT", "MAKE-CHECKPOINT-CONTEXT|%s" % mode, ok, "",
               "MakeCheckpoint placed above %s" % names[max(0, i - 2):i])
    # every owner placed on the stack is entered with a live checkpoint
    for i, n in enumerate(names):
        if n in STRICT_OWNERS and any(e.kind in ("push", "stack_insert") and isinstance(e.d.get("mode"), Enum) and e.d["mode"].variant == n for e in st.events):
            above = names[i + 1:]
            ok = st.ckpt == "some" or "MakeCheckpoint" in above
            ob("R-CKPT", "OWNER-ENTRY|%s|%s" % (mode, n), ok, "",
               "owner mode %s is pushed with a live checkpoint (or a MakeCheckpoint marker above it)" % n if ok else
               "owner mode %s is pushed without a live checkpoint: its fallback arm rolls back to nothing (9001)" % n)


def region_sig(I, st):
    main = st.cursors["main"]
    strm = I.stream_of(st, "main")
    la = tuple(repr(st.cs.get(("LA", strm, main.pos + i))) for i in (0, 1))
    from . import lea_prims
    return (repr(st.stack), st.ckpt, la, st.base, lea_prims.eof_known(st, strm, main.pos))


def explore_regions(I, seeds, ob, max_depth=30, max_states=600):
    """Continue lexing from every path end-state that leaves a checkpoint live, until it is resolved."""
    from . import lea_prims
    from .lea import LEXER
    seen = set()
    work = [(s, 1) for s in seeds]
    n_states = 0
    deepest = 0
    while work:
        st0, depth = work.pop()
        sig = region_sig(I, st0)
        if sig in seen:
            continue
        seen.add(sig)
        n_states += 1
        deepest = max(deepest, depth)
        if n_states > max_states or depth > max_depth:
            ob("R-CKPT", "REGION|budget", False, "", "live-checkpoint region exploration exceeded its budget (depth %d, %d states): fail-closed" % (depth, n_states))
            break
        if not st0.stack:
            ob("R-CKPT", "REGION|unknown-top", False, "", "a live checkpoint survives below the known mode-stack suffix; conditions: %s" % "; ".join(st0.conds[-5:])[:300])
            continue
        s = st0.clone()
        s.events = []
        s.frames = []
        main = s.cursors["main"]
        strm = I.stream_of(s, "main")
        k = lea_prims.eof_known(s, strm, main.pos)
        if k is True:
            continue   # end of input: finalize_lexing takes over
        lea_prims.set_eof(s, strm, main.pos, False)
        la0 = LA(strm, main.pos, 0)
        top = s.stack[-1]
        mode = top.variant if isinstance(top, Enum) else "?"
        outs = I.run_fn("Lexer::lex_token", s, [LEXER, la0])
        for o in outs:
            if o.kind != "ret":
                continue
            ckpt_path_rules(ob, mode, o, "inherited")
            if o.st.ckpt == "some":
                work.append((o.st, depth + 1))
    return {"states": n_states, "deepest": deepest}


def finalize_rules(fx, I, R, mode, outs):
    """R-FINALIZE-ONCE: the unwinding loop of finalize_lexing has already popped the mode it is closing;
    nothing it calls may pop or push again."""
    obs = {}

    def ob(rule, key, ok, site="", detail=""):
        k = (rule, key)
        cur = obs.get(k)
        if cur is None:
            obs[k] = {"rule": rule, "key": key, "ok": bool(ok), "site": site, "detail": detail, "n": 1}
        else:
            cur["n"] += 1
            if cur["ok"] and not ok:
                cur.update(ok=False, site=site, detail=detail)
    from . import lea_prims as _lp
    for o in outs:
        evs = o.st.events
        # R-EOF-AT-END: the EOF token is emitted with the cursor at the end of the text: nothing the unwinding does may
        # put the cursor back (a rollback at end of input un-consumes text that is never lexed again)
        strm = I.stream_of(o.st, "main")
        for e in evs:
            if e.kind == "cursor_restore":
                ob("R-EOF-AT-END", "finalize_lexing|%s|cursor-restore@%s" % (mode, short_fn(e.d.get("owner") or "?")), False,
                   F.file_line(e.d.get("osite") or e.site or "?"),
                   "while unwinding mode %s at end of input the cursor is put back (%s): the text after that position is "
                   "not lexed again, so the remaining virtual tokens and EOF do not sit at the end of the source and the "
                   "tokens no longer cover it" % (mode, short_fn(e.d.get("owner") or "?")))
            elif e.kind == "emit":
                ts = variant_set(I, o.st, e.d.get("type"))
                if ts == {"EOF"}:
                    at_end = _lp.eof_known(o.st, strm, e.d.get("pos")) is True
                    ob("R-EOF-AT-END", "finalize_lexing|eof-position", at_end, F.file_line(e.d.get("osite") or e.site or "?"),
                       "EOF is emitted with the cursor at the end of the text" if at_end else
                       "EOF is emitted while the cursor is not known to be at the end of the text (mode %s)" % mode)
        cur_arm = None
        pops = 0
        for e in evs:
            if e.kind in ("loop_enter", "loop_widen") and e.fn == "Lexer::finalize_lexing":
                pops = 0
                cur_arm = None
            elif e.kind == "pop":
                pops += 1
                if pops == 1:
                    m = e.d.get("mode")
                    cur_arm = m.variant if isinstance(m, Enum) else None
                    if cur_arm is None:
                        f = o.st.vfacts.get(I.vkey(m)) if m is not None else None
                        if f and f[0]:
                            cur_arm = "/".join(sorted(f[0]))[:40]
                else:
                    own = short_fn(e.d.get("owner") or "?")
                    ob("R-FINALIZE-ONCE", "finalize_lexing|%s|second-pop@%s" % (cur_arm or mode, own), False, F.file_line(e.d.get("osite") or e.site or "?"),
                       "while unwinding mode %s at end of input, %s pops the mode stack again: the mode below is discarded "
                       "without its closing token / diagnostic (e.g. a pending StringExpr loses its StringExprEnd)" % (cur_arm or mode, own))
            elif e.kind == "push":
                m = e.d.get("mode")
                # a balanced re-push of the mode being closed directly before the delegate pops it is fine
                if pops >= 1 and isinstance(m, Enum) and m.variant == (cur_arm or ""):
                    pops -= 1
                else:
                    ob("R-FINALIZE-ONCE", "finalize_lexing|%s|push" % (cur_arm or mode), False, F.file_line(e.d.get("osite") or e.site or "?"),
                       "finalize_lexing pushes mode %r while unwinding" % (m,))
        ob("R-FINALIZE-ONCE", "finalize_lexing|%s|iteration" % mode, True, "", "unwinding %s pops exactly once per iteration" % mode)
    return obs


# -- R-WS-ORDER: whitespace-blind modes are entered behind a whitespace skipper -----------------------------------
_WS_SAMPLES = [" ", "\t", "\n", "\r", "\x0c", "\u00a0"]


def _clean_at(st, strm, pos):
    """Is the character at this position provably not whitespace and not the start of a /* comment */ ?"""
    from . import lea_prims
    if lea_prims.eof_known(st, strm, pos) is True:
        return True
    cf = st.cs.get(("LA", strm, pos))
    if cf is None or any(cf.possible(c) for c in _WS_SAMPLES):
        return False
    if cf.possible("/"):
        cf1 = st.cs.get(("LA", strm, pos + 1))
        if cf1 is None or cf1.possible("*"):
            return False
    return True


def ws_summary(I, mode, nbelow, outs):
    """Per-mode summary for R-WS-ORDER:
    blind   - some step gives up (pops / reports / pushes other work) at zero consumption on a character that may be
              whitespace, without delegating to the whitespace skipper;
    exit    - how the mode leaves the stack: 'clean' (next char provably not blank), 'inherit' (left at zero
              consumption: next char is the one it was entered with), 'unclean' (left after consuming), 'none';
    runs    - maximal push sequences (bottom..top) with the function of each push and whether the character after
              the step is provably not blank."""
    from . import lea_prims
    blind = []
    exits = set()
    runs = {}
    for o in outs:
        if o.kind != "ret":
            continue
        st = o.st
        evs = st.events
        strm = I.stream_of(st, "main")
        consumed = any(e.kind == "consume" for e in evs)
        pos = st.cursors["main"].pos
        topv = st.stack[-1].variant if st.stack and isinstance(st.stack[-1], Enum) else None
        if (not consumed and lea_prims.eof_known(st, strm, 0) is not True and not _clean_at(st, strm, 0)
                and any(e.kind in ("pop", "push", "emit", "error") for e in evs) and topv != "WsOrCStyleCommentOnly"):
            if len(blind) < 3:
                blind.append("; ".join(st.conds[-3:])[:200])
            elif len(blind) == 3:
                blind.append("...")
        if len(st.stack) == nbelow and st.base == 0:
            if _clean_at(st, strm, pos):
                exits.add("clean")
            elif not consumed:
                exits.add("inherit")
            else:
                exits.add("unclean")
        run = []
        popped_entry = False
        for e in evs:
            if e.kind == "push":
                m = e.d["mode"]
                v = m.variant if isinstance(m, Enum) else "?"
                if not run and not popped_entry:
                    run.append(("^" + mode, "-", ""))
                run.append((v, short_fn(e.d.get("owner") or e.fn or "?"), F.file_line(e.d.get("osite") or e.site or "?")))
            elif e.kind == "pop":
                if len(run) > 1:
                    run.pop()
                else:
                    popped_entry = True
                    run = []
            elif e.kind in ("stack_insert", "stack_truncate", "stack_replaced"):
                run = []
                popped_entry = True
        if len(run) >= 2:
            k = tuple((a, b) for a, b, c in run)
            tc = _clean_at(st, strm, pos)
            if k not in runs or (runs[k]["top_clean"] and not tc):
                runs[k] = {"run": [list(x) for x in run], "top_clean": tc}
    ex = "unclean" if "unclean" in exits else "inherit" if "inherit" in exits else "clean" if exits else "none"
    return {"mode": mode, "blind": blind, "exit": ex, "runs": list(runs.values())}


def ws_order_obs(summaries, exempt):
    """Join the per-mode summaries: a blind mode must be entered on a provably non-blank character."""
    blind = {s["mode"]: s["blind"] for s in summaries}
    ex = {s["mode"]: s["exit"] for s in summaries}
    obs = {}
    nruns = 0
    for s in summaries:
        for r in s["runs"]:
            run = r["run"]
            nruns += 1
            ent = [None] * len(run)
            ent[-1] = r["top_clean"]
            for i in range(len(run) - 2, -1, -1):
                e = ex.get(run[i + 1][0], "none")
                ent[i] = True if e in ("clean", "none") else ent[i + 1] if e == "inherit" else False
            for i, (m, fn, site) in enumerate(run):
                mm = m.lstrip("^")
                if not blind.get(mm):
                    continue
                above = run[i + 1][0] if i + 1 < len(run) else "<next input>"
                where_fn = fn if fn != "-" else (run[i + 1][1] if i + 1 < len(run) else "-")
                where_site = site or (run[i + 1][2] if i + 1 < len(run) else "")
                key = "%s<-%s|%s" % (mm, above, where_fn)
                ok = bool(ent[i])
                detail = "mode %s is entered behind %s, which leaves a non-blank character" % (mm, above)
                if not ok and mm in exempt:
                    ok = True
                    detail = "audited: whitespace terminates %s by design (%s)" % (mm, exempt[mm])
                if not ok:
                    detail = ("mode %s gives up at zero consumption on a character that may be whitespace (%s), and here it is "
                              "entered right after %s, which can leave whitespace or a comment in front of it: insignificant "
                              "blanks change the outcome; push sequence (bottom..top): %s"
                              % (mm, blind[mm][0], above, " ".join(x[0] for x in run)))
                cur = obs.get(key)
                if cur is None or (cur["ok"] and not ok):
                    obs[key] = {"rule": "R-WS-ORDER", "key": key, "ok": ok, "site": where_site, "detail": detail, "n": 1}
    return list(obs.values()), nruns


# -- R-FRAME-BALANCE: pending-statement frames and the macro nesting level are opened/closed only by their keywords --
FRAME_KW = {"KwmDo": (1, 0), "KwmEnd": (-1, 0), "KwmMacro": (1, 1), "KwmMend": (-1, -1)}
# modes whose handler looks behind at the last DEFAULT token and asserts / relies on its type
PUSH_ORIGIN = {"MacroDo": {"KwmDo"}, "MacroLocalGlobal": {"KwmLocal", "KwmGlobal"}, "MaybeMacroCallArgsOrLabel": {"MacroIdentifier"}}


def _nest_delta(e):
    """+1 / -1 / None (unknown) for a write of macro_nesting_level."""
    r = repr(e.d.get("new").key()) if hasattr(e.d.get("new"), "key") else ""
    o = repr(e.d.get("old").key()) if hasattr(e.d.get("old"), "key") else "?"
    if o in r:
        if "bin:Add" in r and "('C', 'int', 1)" in r:
            return 1
        if ("saturating_sub" in r or "bin:Sub" in r or "wrapping_sub" in r or "checked_sub" in r) and "('C', 'int', 1)" in r:
            return -1
    return None


def frame_summary(I, mode, outs):
    """Per lex_token path: (frames pushed - frames popped, nesting delta) and the frame keywords it emits.
    A frame pop is counted at the call of pop_pending_stat (its `len > 1` guard is R-9XXX's business)."""
    res = {"mode": mode, "kw": {}, "mode_deltas": [], "other": [], "macrodo_pushed_by": []}
    for o in outs:
        if o.kind != "ret":
            continue
        st = o.st
        dp = dn = 0
        unknown = False
        kws = set()
        for e in st.events:
            if e.kind == "enter" and e.callee == "Lexer::push_pending_stat":
                dp += 1
            elif e.kind == "enter" and e.callee == "Lexer::pop_pending_stat":
                dp -= 1
            elif e.kind == "pending" and e.d.get("op") in ("push", "pop") and e.fn not in (
                    "Lexer::push_pending_stat", "Lexer::pop_pending_stat", "Lexer::pending_stat", "Lexer::set_pending_stat"):
                dp += 1 if e.d.get("op") == "push" else -1
            elif e.kind == "nesting":
                d = _nest_delta(e)
                if d is None:
                    unknown = True
                else:
                    dn += d
            elif e.kind == "emit":
                ts = variant_set(I, st, e.d["type"]) or set()
                if len(ts) == 1 and next(iter(ts)) in FRAME_KW:
                    kws.add(next(iter(ts)))
            elif e.kind == "push":
                m = e.d.get("mode")
                if isinstance(m, Enum) and m.variant == "MacroDo":
                    res["macrodo_pushed_by"].append(sorted(kws))
        # R-PUSH-ORIGIN data: what was the last DEFAULT token emitted before a look-behind-dependent mode was pushed,
        # and which modes were pushed above it in the same step
        last_def = None
        for i_, e in enumerate(st.events):
            if e.kind == "emit":
                cs = variant_set(I, st, e.d["channel"]) or set()
                if cs == {"DEFAULT"}:
                    last_def = sorted(variant_set(I, st, e.d["type"]) or ["?"])
                elif "DEFAULT" in cs or not cs:
                    last_def = ["?"]
                if mode == "WsOrCStyleCommentOnly" and ("DEFAULT" in cs or not cs):
                    res.setdefault("ws_default_emits", []).append(F.file_line(e.d.get("osite") or e.site or "?"))
            elif e.kind == "push":
                m = e.d.get("mode")
                if isinstance(m, Enum) and m.variant in PUSH_ORIGIN:
                    flag_ok = True
                    if m.variant == "MaybeMacroCallArgsOrLabel":
                        fv = m.fields.get("check_macro_label")
                        flag_ok = not (isinstance(fv, Const) and fv.v is False)     # only the label-checking form looks behind
                    above = []
                    for x in st.events[i_ + 1:]:
                        if x.kind == "push":
                            mm = x.d.get("mode")
                            above.append(mm.variant if isinstance(mm, Enum) else "?")
                        elif x.kind in ("pop", "stack_truncate"):
                            above.append("<%s>" % x.kind)
                        elif x.kind == "stack_insert" and (x.d.get("at") is None or x.d["at"] >= e.d.get("depth", 0)):
                            above.append("<stack_insert>")      # (inserts below the mode do not come between)
                    if flag_ok:
                        res.setdefault("push_origin", []).append([m.variant, last_def, above, short_fn(e.d.get("owner") or e.fn or "?"),
                                                                  F.file_line(e.d.get("osite") or e.site or "?")])
        site = ""
        for e in st.events:
            if e.kind == "arm" and e.fn not in ("Lexer::lex_token", "Lexer::mode") and not e.d["match"].get("exp"):
                site = "%s|%s" % (short_fn(e.fn), pat_text(e.d["match"]["arms"][e.d["arm"]]["pat"]))
                break
        rec = [dp, dn, unknown, site, "; ".join(st.conds[-3:])[:160]]
        for e in st.events:
            if e.kind == "pending" and e.d.get("op") == "pop":
                res.setdefault("pops", []).append([bool(e.d.get("guarded")), short_fn(e.fn), F.file_line(e.site or "?")])
        if kws:
            for k in kws:
                res["kw"].setdefault(k, []).append(rec)
            if len(kws) > 1:
                res["other"].append(rec + ["emits %s in one step" % sorted(kws)])
        elif mode == "MacroDo":
            res["mode_deltas"].append(rec)
        elif dp or dn or unknown:
            res["other"].append(rec + ["frame / nesting change outside the frame keywords"])
    return res


def keyword_length_obs(counts):
    """R-KEYWORD-FLOW, existential part: every key length of a keyword table is admitted by the length conditions
    of at least one path (of any mode) that consults the table in the function that owns the lookup."""
    req = counts.get("R-KEYWORD-FLOW", {}).get("kwlen_required", set())
    cov = counts.get("R-KEYWORD-FLOW", {}).get("kwlen_covered", set())
    by = {}
    for k in req:
        tag, _, L = k.rpartition("|")
        by.setdefault(tag, []).append((int(L), k in cov))
    obs = []
    for tag, xs in sorted(by.items()):
        missing = sorted(L for L, c in xs if not c)
        obs.append({"rule": "R-KEYWORD-FLOW", "key": "%s|length-shortcut" % tag, "ok": not missing, "site": "", "n": 1, "modes": [],
                    "detail": "every key length (%d..%d) is admitted by a path that consults the table" % (min(L for L, _ in xs), max(L for L, _ in xs))
                    if not missing else
                    "no path of %s consults %s for an identifier of length %s: the length conditions in front of the lookup "
                    "exclude it, so keywords of that length are never recognised" % (tag.split("|")[0], tag.split("|")[1], missing)})
    return obs


def family_agree_obs(counts):
    """R-FAMILY-AGREE: the Q / K / QK variants of a built-in (quoting and DBCS flavours of the same function: %scan,
    %qscan, %kscan, %qkscan) pre-load the same mode sequence as the function they are a flavour of.  Families are read
    off the keyword names the crate itself uses; sequences are the abstract pre-loaded modes in lexing order, joined over
    all paths and modes."""
    seqs = {}
    for k in counts.get("R-FAMILY-AGREE", {}).get("seqs", ()):
        kw, _, sq = k.partition("|")
        seqs.setdefault(kw, set()).add(sq)
    names = {k[3:]: k for k in seqs if k.startswith("Kwm")}
    pre = []
    evals = sorted(counts.get("R-FAMILY-AGREE", {}).get("do_eval", ()))
    if evals:
        pre.append({"rule": "R-FAMILY-AGREE", "key": "KwmDo|iterative-from-expression", "ok": len(evals) == 1, "site": "", "n": 1, "modes": [],
                    "detail": "every flavour of the iterative %%do sets up the same from-expression mode (%s)" % evals[0] if len(evals) == 1 else
                    "the arms of dispatch_macro_do that set up an iterative %%do create different from-expression modes: %s - the loop "
                    "variable may be a name, a macro variable or a macro call, the expression after `=` is the same in all three, so "
                    "one arm lexes it with the wrong flags (e.g. %%to no longer terminates it cleanly)" % " vs ".join(evals)})
    import os
    with open(os.path.join(os.path.dirname(os.path.dirname(os.path.abspath(__file__))), "tables", "family_exceptions.json")) as f:
        exempt = json.load(f)["pairs"]
    obs = list(pre)
    for root, rk in sorted(names.items()):
        fam = [names[p + root] for p in ("Q", "K", "QK") if (p + root) in names]
        if not fam:
            continue
        bad = [m for m in fam if seqs[m] != seqs[rk] and ("%s|%s" % (rk, m)) not in exempt]
        obs.append({"rule": "R-FAMILY-AGREE", "key": "%s|family" % rk, "ok": not bad, "site": "", "n": 1, "modes": [],
                    "detail": "%s and its flavours %s pre-load the same modes" % (rk, ", ".join(fam)) if not bad else
                    "%s pre-loads %s but its flavour %s pre-loads %s: the variants of one built-in take the same arguments, so "
                    "one of them lexes an argument in the wrong mode (an expression as text or the reverse)"
                    % (rk, sorted(seqs[rk])[:2], bad[0], sorted(seqs[bad[0]])[:2])})
    return obs


def replay_agree_obs(counts):
    """R-REPLAY-AGREE, joined over all paths and modes (see Rules.r_replay)."""
    c = counts.get("R-REPLAY-AGREE", {})
    sets = {}
    for kind in ("cont", "stop", "abort"):
        for k in c.get("char_%s" % kind, ()):
            fn, L, o = k.rsplit("|", 2)
            sets.setdefault((fn, L), {}).setdefault(kind, set()).add(chr(int(o)))
    obs = []
    for k in sorted(c.get("pairs", ())):
        fn, A, B = k.rsplit("|", 2)
        ca, cb = sets.get((fn, A), {}).get("cont", set()), sets.get((fn, B), {}).get("cont", set())
        sa = sets.get((fn, A), {}).get("stop", set())
        early = sorted(ca - cb)
        late = sorted(cb & sa)
        ok = not early and not late
        obs.append({"rule": "R-REPLAY-AGREE", "key": "%s|replay" % fn, "ok": ok, "site": "", "n": 1, "modes": [],
                    "detail": "the replaying loop of %s continues on exactly the characters its look-ahead loop continued on (%d)" % (fn, len(ca))
                    if ok else
                    "%s validates a stretch with a look-ahead loop and then walks the real cursor over it, but the second loop %s: "
                    "it ends somewhere else than the look-ahead promised, and the token boundary lands inside the stretch"
                    % (fn, ("stops at %s, which the look-ahead skipped" % ", ".join(repr(x) for x in early[:5])) if early else
                       ("runs over %s, where the look-ahead stopped" % ", ".join(repr(x) for x in late[:5])))})
    return obs


def frame_balance_obs(summaries):
    """Frames: a %do may open its frame in the keyword step or in the MacroDo step that follows it; `owed` (0/1) is
    what the keyword step leaves to the MacroDo step and must be the same on every keyword path.  Then
      other modes, keyword K   : frames = want(K)            (K = %do: 1 - owed)
      MacroDo, no keyword      : frames = owed
      MacroDo, keyword K       : frames = owed + want(K)     (K = nested %do: owed + 1 - owed = 1)
    and the nesting level changes only with %macro / %mend."""
    obs = {}

    def ob(key, ok, detail, site=""):
        cur = obs.get(key)
        if cur is None or (cur["ok"] and not ok):
            obs[key] = {"rule": "R-FRAME-BALANCE", "key": key, "ok": ok, "site": site, "detail": detail, "n": 1, "modes": []}
    n = 0
    owed_set = set()
    for s in summaries:
        if s["mode"] != "MacroDo":
            for rec in s["kw"].get("KwmDo", []):
                owed_set.add(1 - rec[0])
    owed = next(iter(owed_set)) if len(owed_set) == 1 else None
    ob("KwmDo|keyword-step", owed in (0, 1), "the %%do keyword step opens %d frame(s) on every path (the MacroDo step owes %d)" % (1 - (owed or 0), owed or 0)
       if owed in (0, 1) else "the %%do keyword step does not open the same number of frames on every path (%s)" % sorted(1 - o for o in owed_set))
    seen_kw = set()
    for s in summaries:
        md = s["mode"] == "MacroDo"
        base = (owed or 0) if md else 0
        for k, recs in s["kw"].items():
            seen_kw.add(k)
            for rec in recs:
                n += 1
                wf, wn = FRAME_KW[k]
                if k == "KwmDo":
                    wf = 1 - (owed or 0)
                want = (base + wf, wn)
                ok = (rec[0], rec[1]) == want and not rec[2]
                ob("%s|%s" % (k, rec[3]), ok,
                   "%s changes frames by %+d and nesting by %+d%s" % (k, want[0], want[1], " (incl. the frame owed by the enclosing %do)" if md and owed else "") if ok else
                   "%s on path %s (mode %s) changes frames by %+d and nesting by %+d, expected %+d/%+d: frames opened and closed by "
                   "%%do/%%end, %%macro/%%mend no longer pair up; conditions: %s" % (k, rec[3], s["mode"], rec[0], rec[1], want[0], want[1], rec[4]))
        for rec in s["mode_deltas"]:
            n += 1
            ok = (rec[0], rec[1]) == (base, 0) and not rec[2]
            ob("MacroDo|%s" % rec[3], ok,
               "the MacroDo step opens the %d frame(s) the %%do keyword step left to it" % base if ok else
               "MacroDo path %s changes frames by %+d and nesting by %+d, but the %%do keyword step left %d frame(s) to open: the "
               "matching %%end restores a frame that was never saved (or one leaks); conditions: %s" % (rec[3], rec[0], rec[1], base, rec[4]))
        for rec in s["other"]:
            ob("other|%s|%s" % (s["mode"], rec[3]), False,
               "mode %s, %s: %s (frames %+d, nesting %+d%s); conditions: %s" % (s["mode"], rec[3], rec[5], rec[0], rec[1], ", unknown nesting write" if rec[2] else "", rec[4]))
        for by in s["macrodo_pushed_by"]:
            ob("MacroDo-pushed-by-%do", by == ["KwmDo"], "the MacroDo mode is pushed only by the step that emits %do" if by == ["KwmDo"] else
               "MacroDo is pushed on a step that emits %s" % by)
        ob("paths|%s" % s["mode"], True, "no other path of mode %s touches frames or the nesting level" % s["mode"])
        for guarded, fn, site in s.get("pops", []):
            ob("bottom-frame|%s" % fn, guarded,
               "the pop of a pending-statement frame in %s is dominated by a test that at least one frame remains" % fn if guarded else
               "%s pops a pending-statement frame without establishing that more than one is present: an unmatched %%end / %%mend "
               "empties the stack (InternalErrorEmptyPendingStatStack 9009, and the open-code flag is lost)" % fn, site)
    for k in FRAME_KW:
        if k not in seen_kw:
            ob("%s|anchor" % k, False, "no lex_token path emits %s" % k)
    # R-PUSH-ORIGIN (reported under its own rule name)
    po = {}

    def pob(key, ok, detail, site=""):
        cur = po.get(key)
        if cur is None or (cur["ok"] and not ok):
            po[key] = {"rule": "R-PUSH-ORIGIN", "key": key, "ok": ok, "site": site, "detail": detail, "n": 1, "modes": []}
    seen_modes = set()
    for s in summaries:
        for mv, last_def, above, fn, site in s.get("push_origin", []):
            seen_modes.add(mv)
            want = PUSH_ORIGIN[mv]
            ok1 = last_def is not None and set(last_def) <= want
            ok2 = all(a == "WsOrCStyleCommentOnly" for a in above)
            pob("%s|%s" % (mv, fn), ok1 and ok2,
                "mode %s is pushed right after the DEFAULT token %s, with only the whitespace/comment skipper above it" % (mv, sorted(want)) if ok1 and ok2 else
                "mode %s (whose handler relies on the previous DEFAULT token being %s) is pushed after %s with %s pushed above it: "
                "its look-behind assertion / retype can meet a different token" % (mv, sorted(want), last_def, above), site)
        for site in s.get("ws_default_emits", []):
            pob("WsOrCStyleCommentOnly|default-emission", False,
                "the whitespace/comment skipper can emit a DEFAULT-channel token: a look-behind through it sees a different token", site)
    pob("WsOrCStyleCommentOnly|hidden-only", True, "the whitespace/comment skipper emits nothing on the DEFAULT channel")
    for mv in PUSH_ORIGIN:
        if mv not in seen_modes:
            pob("%s|anchor" % mv, False, "no path pushes mode %s" % mv)
    return list(obs.values()) + list(po.values()), n


# -- R-BOM-ORDER (LEA): what Lexer::new does with a leading byte-order mark -----------------------------------------
def _remaining_len_pos(v):
    """(stream, pos) of the cursor snapshot `total - remaining_len(stream, pos)` inside a byte-offset value."""
    r = repr(v.key()) if hasattr(v, "key") else ""
    m = re.search(r"\('X', 'remaining_len', \('C', 'str', '([^']+)'\), \('C', 'int', (\d+)\)\)", r)
    return (m.group(1), int(m.group(2))) if m else None


def bom_rules(I, outs):
    """Paths of Lexer::new: at most one character is skipped and it is the BOM; the first line and the first token
    start are snapshots taken *after* that skip (byte offset) and count exactly the skipped characters (char offset);
    without a BOM nothing is skipped."""
    obs = {}

    def ob(key, ok, detail, site=""):
        cur = obs.get(key)
        if cur is None or (cur["ok"] and not ok):
            obs[key] = {"rule": "R-BOM-ORDER", "key": key, "ok": ok, "site": site, "detail": detail, "n": 1, "modes": ["<new>"]}
    n = 0
    for o in outs:
        if o.kind not in ("ret", "val") or not isinstance(o.val, Enum) or o.val.variant != "Ok" or not o.val.args:
            continue
        lx = o.val.args[0]
        if not isinstance(lx, Enum) or "cursor" not in lx.fields:
            ob("new|anchor", False, "Lexer::new does not return a Lexer value LEA can inspect")
            continue
        n += 1
        st = o.st
        cur = lx.fields.get("cursor")
        cid = getattr(cur, "id", None) if isinstance(cur, Obj) else None
        if cid is None:
            m = re.search(r"cursor:(\w+)", repr(cur))
            cid = m.group(1) if m else None
        c = st.cursors.get(cid)
        if c is None:
            ob("new|anchor", False, "the cursor stored in the new Lexer is not one LEA tracked (%r)" % cur)
            continue
        strm = I.stream_of(st, cid)
        cons = [e for e in st.events if e.kind in ("consume", "la_consume") and e.d.get("cursor") == cid]
        nchars = 0
        only_bom = True
        for e in cons:
            chars = e.d.get("chars")
            if chars is None:
                nchars = 99
                continue
            nchars += len(chars)
            for ch in chars:
                cf = st.cs.get(ch.key())
                if cf is None or cf.inc is None or set(cf.inc) != {"\ufeff"}:
                    only_bom = False
        widened = any(e.kind == "loop_widen" for e in st.events)
        ok = nchars <= 1 and only_bom and not widened
        ob("new|skips-at-most-one-bom", ok,
           "Lexer::new skips at most one character and only a byte-order mark" if ok else
           "Lexer::new can skip %s character(s)%s before lexing starts: text that belongs to no token (the mark is one character; "
           "a second one is ordinary text); conditions: %s" % ("several" if nchars > 1 or widened else nchars, "" if only_bom else " that are not provably U+FEFF", "; ".join(st.conds[-3:])[:200]))
        if nchars == 0:
            cf0 = st.cs.get(("LA", strm, 0))
            from . import lea_prims
            nobom = (cf0 is not None and not cf0.possible("\ufeff")) or lea_prims.eof_known(st, strm, 0) is True
            ob("new|bom-is-skipped", nobom, "when nothing is skipped the first character is provably not a BOM" if nobom else
               "a path of Lexer::new skips nothing although the first character may be a BOM: the mark would become a token and shift columns")
        # snapshots
        final = c.pos
        lines = [e for e in st.events if e.kind == "add_line"]
        okl = len(lines) == 1
        detail = "exactly one line is added"
        if okl:
            sp = _remaining_len_pos(lines[0].d.get("byte"))
            okl = sp is not None and sp[1] == final
            detail = "the first line starts at the cursor position after the skip" if okl else \
                "the first line's byte offset is taken at position %s, the cursor ends at %d: the BOM is counted in (or missing from) the first line" % (sp, final)
            stv = lines[0].d.get("start")
            inner = stv.args[0] if isinstance(stv, Enum) and stv.args else stv
            if okl and isinstance(inner, Const) and inner.t == "int" and nchars <= 1:
                okl = inner.v == nchars
                detail = "first line: byte offset after the skip, char offset = %d skipped" % nchars if okl else \
                    "the first line's char offset is %r but %d character(s) were skipped" % (inner.v, nchars)
        ob("new|first-line", okl, detail)
        tb = lx.fields.get("cur_token_byte_offset")
        sp = _remaining_len_pos(tb) if tb is not None else None
        okt = sp is not None and sp[1] == final
        ts = lx.fields.get("cur_token_start")
        inner = ts.args[0] if isinstance(ts, Enum) and ts.args else ts
        if okt and isinstance(inner, Const) and inner.t == "int" and nchars <= 1:
            okt = inner.v == nchars
        ob("new|first-token-start", okt, "the first token starts at the cursor position after the skip" if okt else
           "cur_token_byte_offset / cur_token_start of the new Lexer (%r / %r) are not the cursor position after the skip (%d)" % (tb, ts, final))
    if n == 0:
        ob("new|anchor", False, "no successful path of Lexer::new found")
    return list(obs.values()), n
