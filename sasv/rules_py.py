"""C20 — Python binding contract: R-WIRE (positional msgpack layout vs msgspec array_like Structs),
R-ENUMS (Python IntEnums vs discriminants of the crate the binding links), R-PY-SOURCE, regeneration diff."""
import ast
import json
import os
import re

from . import facts as F
from .extract import REPO


def py_class_fields(path, cls):
    tree = ast.parse(open(path).read())
    for node in tree.body:
        if isinstance(node, ast.ClassDef) and node.name == cls:
            kw = {k.arg: getattr(k.value, "value", None) for k in node.keywords}
            fields = []
            for st in node.body:
                if isinstance(st, ast.AnnAssign) and isinstance(st.target, ast.Name):
                    fields.append((st.target.id, ast.unparse(st.annotation)))
            bases = [ast.unparse(b) for b in node.bases]
            return fields, kw, bases
    return None, None, None


def py_enum(path, cls):
    tree = ast.parse(open(path).read())
    for node in tree.body:
        if isinstance(node, ast.ClassDef) and node.name == cls:
            out = {}
            for st in node.body:
                if isinstance(st, ast.Assign) and len(st.targets) == 1 and isinstance(st.targets[0], ast.Name) and isinstance(st.value, ast.Constant):
                    out[st.targets[0].id] = st.value.value
            return out
    return None


def norm_name(s):
    return re.sub(r"[^A-Za-z0-9]", "", s).upper()


def serialize_field_order(fx, adt):
    """Field names in the order the (derive-generated) Serialize impl writes them."""
    for name, b in fx.bodies.items():
        if (name.startswith("<" + adt + " as ") and name.endswith("::serialize")) or \
                (F.norm(b.get("impl_self") or "") == adt and name.endswith("::serialize")):
            names = []
            kinds = set()
            for x, _ in F.walk(b["hir"]):
                if F.is_call(x):
                    c = F.callee(x)
                    last = c.split("::")[-1]
                    if last in ("serialize_field", "serialize_element"):
                        for a in F.call_args(x):
                            l = F.lit_of(F.strip(a))
                            if l and l[0] == "str":
                                names.append(l[1])
                    if last.startswith("serialize_"):
                        kinds.add(last)
            return names, kinds
    return None, None


_KEEPS = {0: ("list", "tuple"), 1: ("list", "tuple"), 2: ("bytes",)}


def _py_result_passthrough(fn):
    """Straight-line provenance of the returned value: the decoded wire tuple, or its three components in order,
    each untouched or passed through a content-preserving constructor (list/tuple for the sequences, bytes for the
    literal buffer: payload ranges are byte offsets into it)."""
    env = {}

    def ev(e):
        if isinstance(e, ast.Name):
            return env.get(e.id, "other")
        if isinstance(e, ast.Call):
            if isinstance(e.func, ast.Name) and e.func.id == "_lex_program_from_str":
                return "wire"
            if isinstance(e.func, ast.Attribute) and e.func.attr == "decode" and len(e.args) == 1 and not e.keywords \
                    and ev(e.args[0]) == "wire":
                return "decoded"
            if isinstance(e.func, ast.Name) and len(e.args) == 1 and not e.keywords:
                a = ev(e.args[0])
                if isinstance(a, tuple) and a[0] == "comp" and e.func.id in _KEEPS.get(a[1], ()):
                    return a
            return "other"
        if isinstance(e, ast.Subscript) and ev(e.value) == "decoded" and isinstance(e.slice, ast.Constant) and isinstance(e.slice.value, int):
            return ("comp", e.slice.value)
        if isinstance(e, ast.Tuple):
            return ("tuple", tuple(ev(x) for x in e.elts))
        return "other"
    ret = None
    for st_ in fn.body:
        if isinstance(st_, ast.Expr):
            continue   # docstring
        if isinstance(st_, ast.Assign) and len(st_.targets) == 1:
            v = ev(st_.value)
            t = st_.targets[0]
            if isinstance(t, ast.Name):
                env[t.id] = v
                continue
            if isinstance(t, ast.Tuple) and all(isinstance(x, ast.Name) for x in t.elts):
                for i, x in enumerate(t.elts):
                    env[x.id] = ("comp", i) if v == "decoded" else (v[1][i] if isinstance(v, tuple) and v[0] == "tuple" and i < len(v[1]) else "other")
                continue
            return False, "statement `%s` is outside the straight-line forms the rule can follow" % ast.unparse(st_)[:80]
        if isinstance(st_, ast.AnnAssign) and isinstance(st_.target, ast.Name) and st_.value is not None:
            env[st_.target.id] = ev(st_.value)
            continue
        if isinstance(st_, ast.Return):
            ret = st_
            break
        return False, "statement `%s` is outside the straight-line forms the rule can follow" % ast.unparse(st_)[:80]
    if ret is None or ret.value is None:
        return False, "lex_program_from_str does not return the decoded result"
    v = ev(ret.value)
    if v == "decoded" or v == ("tuple", (("comp", 0), ("comp", 1), ("comp", 2))):
        return True, "the wrapper returns the decoded tokens, errors and literal buffer as the extension produced them"
    return False, ("the wrapper returns `%s`: a component of the result is converted after decoding (provenance %s); payload "
                   "ranges are byte offsets into the *bytes* buffer and token offsets describe the decoded records"
                   % (ast.unparse(ret.value)[:80], v))


def _decoder_type(tree):
    """The type expression given to msgspec's Decoder(...) in lexer.py, with module-level aliases
    (`_Packed = tuple[...]`, `Tokens = list[Token]`) substituted, as source text."""
    alias = {}
    for st_ in tree.body:
        if isinstance(st_, ast.Assign) and len(st_.targets) == 1 and isinstance(st_.targets[0], ast.Name):
            alias[st_.targets[0].id] = st_.value
        elif isinstance(st_, ast.AnnAssign) and isinstance(st_.target, ast.Name) and st_.value is not None:
            alias[st_.target.id] = st_.value
        elif hasattr(ast, "TypeAlias") and isinstance(st_, ast.TypeAlias) and isinstance(st_.name, ast.Name):
            alias[st_.name.id] = st_.value

    class Sub(ast.NodeTransformer):
        depth = 0

        def visit_Name(self, node):
            v = alias.get(node.id)
            if v is not None and isinstance(v, (ast.Subscript, ast.Name)) and self.depth < 8:
                self.depth += 1
                r = self.visit(ast.parse(ast.unparse(v), mode="eval").body)
                self.depth -= 1
                return r
            return node
    for node in ast.walk(tree):
        if isinstance(node, ast.Call) and ((isinstance(node.func, ast.Name) and node.func.id == "Decoder") or
                                           (isinstance(node.func, ast.Attribute) and node.func.attr == "Decoder")):
            t = node.args[0] if node.args else next((k.value for k in node.keywords if k.arg == "type"), None)
            if t is not None:
                return ast.unparse(Sub().visit(ast.parse(ast.unparse(t), mode="eval").body))
    return None


_CACHING = ("cache", "memo")


def _py_wrapper_stateless(tree, fn):
    """The public wrapper computes its result afresh on every call: no caching decorator and no module-level
    container written or consulted for results.  A cached (list, list, bytes) is shared between callers; an in-place
    edit by one holder is then what the next caller gets for the same text."""
    for d in fn.decorator_list:
        txt = ast.unparse(d).lower()
        if any(w in txt for w in _CACHING):
            return False, "lex_program_from_str is decorated with `@%s`: the mutable token / error lists of one call are handed out again for an equal source string" % ast.unparse(d)
    containers = set()
    for st_ in tree.body:
        tgt = st_.targets[0] if isinstance(st_, ast.Assign) and len(st_.targets) == 1 else getattr(st_, "target", None) if isinstance(st_, ast.AnnAssign) else None
        v = getattr(st_, "value", None)
        if isinstance(tgt, ast.Name) and (isinstance(v, (ast.Dict, ast.List, ast.Set, ast.DictComp, ast.ListComp)) or
                                          (isinstance(v, ast.Call) and isinstance(v.func, ast.Name) and v.func.id in
                                           ("dict", "list", "set", "OrderedDict", "defaultdict", "WeakValueDictionary"))):
            containers.add(tgt.id)
    for node in ast.walk(fn):
        if isinstance(node, ast.Global):
            return False, "lex_program_from_str declares `global %s`: results depend on module state" % ", ".join(node.names)
        if isinstance(node, ast.Name) and node.id in containers:
            return False, "lex_program_from_str uses the module-level container `%s`: results are kept between calls" % node.id
    return True, "the wrapper has no caching decorator and touches no module-level container"


def run(cx):
    cx.rules_run += ["R-WIRE", "R-ENUMS", "R-PY-SOURCE"]
    fpy = cx.facts("py", crate="_sas_lexer_rust")
    flx = cx.facts("py", crate="sas_lexer")      # the crate the binding actually links
    cx.analysed["linked_crate"] = flx.raw.get("src_root")
    pydir = os.path.join(REPO, "src", "sas_lexer")
    b = fpy.fn("_lex_program_from_str")
    if b is None:
        cx.violation("R-WIRE", "anchors", "", "_lex_program_from_str not found in sas-lexer-py")
        return
    # --- the serialization call -------------------------------------------------------------
    # anywhere in the binding crate (the encoding may sit in a helper of the exported function)
    enc = [x for nm, bb in fpy.bodies.items() if not fpy.is_derive(nm) and bb["kind"] in ("Fn", "AssocFn")
           for x, _ in F.walk(bb["hir"]) if F.is_call(x) and "rmp_serde" in (x.get("def") or "")]
    ok = len(enc) == 1 and F.norm(enc[0]["def"]).endswith("::to_vec")
    cx.ob("R-WIRE", "encoder", ok, b["span"], "one rmp_serde::encode::to_vec call (structs as positional arrays)" if ok else
          "serialization is not a single rmp_serde::encode::to_vec call (%s): named maps / another encoder break positional decoding" % [e.get("def") for e in enc])
    elems = []
    if enc:
        arg = F.strip(enc[0]["args"][0])
        if arg.get("k") == "Tup":
            elems = [F.strip(e).get("ty") or "" for e in arg["elems"]]
    dec = None
    try:
        dec = _decoder_type(ast.parse(open(os.path.join(pydir, "lexer.py")).read()))
    except (OSError, SyntaxError):
        pass
    want = ["ResolvedTokenInfo", "ErrorInfo", "Bytes"]
    ok = len(elems) == 3 and all(w in e for w, e in zip(want, elems))
    cx.ob("R-WIRE", "tuple-order|rust", ok, b["span"], "payload tuple is (Vec<ResolvedTokenInfo>, Vec<ErrorInfo>, bytes)" if ok else "payload tuple element types are %s" % elems)
    okd = dec is not None and re.sub(r"\s", "", dec) == "tuple[list[Token],list[Error],bytes]"
    cx.ob("R-WIRE", "tuple-order|python", okd, "src/sas_lexer/lexer.py", "Python decoder type is tuple[list[Token], list[Error], bytes]" if okd else "Python decoder type is %r" % dec)
    # --- struct layouts ------------------------------------------------------------------------
    pairs = [("buffer::ResolvedTokenInfo", "token.py", "Token", {}),
             ("error::ErrorInfo", "error.py", "Error", {"last_token": "last_token_index"})]
    nfields = 0
    for adt, pyfile, cls, rename in pairs:
        a = flx.adts.get(adt)
        pf, kw, bases = py_class_fields(os.path.join(pydir, pyfile), cls)
        if a is None or pf is None:
            cx.violation("R-WIRE", "layout|%s|anchors" % cls, "", "cannot find %s in the linked crate or %s in %s" % (adt, cls, pyfile))
            continue
        rust_fields = [f["name"] for f in a["variants"][0]["fields"]]
        order, kinds = serialize_field_order(flx, adt)
        oks = order == rust_fields
        cx.ob("R-WIRE", "layout|%s|serialize-order" % cls, oks, a["span"],
              "Serialize impl of %s writes its fields in declaration order" % adt if oks else "Serialize impl of %s writes %s, declaration order is %s" % (adt, order, rust_fields))
        py_names = [n for n, _ in pf]
        exp = [rename.get(n, n) for n in rust_fields]
        okl = py_names == exp
        nfields += len(rust_fields)
        cx.ob("R-WIRE", "layout|%s|fields" % cls, okl, "src/sas_lexer/" + pyfile,
              "%s fields match %s positionally (%d fields)" % (cls, adt, len(exp)) if okl else
              "Python %s declares %s but the binding sends %s in this order: every field after the first mismatch is mis-decoded" % (cls, py_names, exp))
        oka = kw.get("array_like") is True
        cx.ob("R-WIRE", "layout|%s|array_like" % cls, oka, "src/sas_lexer/" + pyfile, "%s is an array_like msgspec Struct" % cls if oka else "%s is not declared array_like=True" % cls)
    # Payload: untagged (no variant framing), TokenIdx: newtype
    order, kinds = serialize_field_order(flx, "buffer::Payload")
    okp = kinds is not None and not any(k.endswith("_variant") for k in kinds)
    cx.ob("R-WIRE", "payload|untagged", okp, "", "Payload serializes untagged (nil / int / float / 2-array)" if okp else "Payload Serialize impl uses variant framing %s: Python expects int | float | tuple | None" % sorted(kinds or []))
    # --- enums -------------------------------------------------------------------------------------
    nvals = 0
    for adt, pyfile, cls in (("token_type::TokenType", "token_type.py", "TokenType"), ("channel::TokenChannel", "token_channel.py", "TokenChannel"),
                             ("error::ErrorKind", "error_kind.py", "ErrorKind")):
        a = flx.adts.get(adt)
        pe = py_enum(os.path.join(pydir, pyfile), cls)
        if a is None or pe is None:
            cx.violation("R-ENUMS", "%s|anchors" % cls, "", "cannot find %s / %s" % (adt, pyfile))
            continue
        rust = {norm_name(v["name"]): v["discr"] for v in a["variants"]}
        py = {norm_name(k): v for k, v in pe.items()}
        nvals += len(rust)
        missing = sorted(k for k in rust if k not in py or py[k] != rust[k])
        extra = sorted(k for k in py if k not in rust)
        ok = not missing and not extra
        cx.ob("R-ENUMS", cls, ok, "src/sas_lexer/" + pyfile,
              "%d members of Python %s equal the discriminants of the linked crate" % (len(rust), cls) if ok else
              "Python %s differs from %s of the linked crate: missing/mismatched %s, extra %s" % (cls, adt, missing[:6], extra[:6]))
    # regeneration cross-check (the scratch build of sas-lexer-py re-generated the three modules)
    try:
        regen = json.load(open(os.path.join(cx.cdir, "py_regen.json")))
    except OSError:
        regen = {}
    for n, same in sorted(regen.items()):
        cx.ob("R-ENUMS", "regen|%s" % n, same is True, "src/sas_lexer/" + n, "build.rs regenerates %s byte-identically" % n if same is True else "build.rs output for %s differs from the committed file (%s)" % (n, same))
    # --- the source text handed to the lexer is the caller's text ------------------------------------
    lexcalls = [x for x, _ in F.walk(b["hir"]) if F.is_call(x) and (x.get("def") or "").endswith("lex_program")]
    conv = []
    if len(lexcalls) == 1:
        # the argument's provenance: initialiser(s) of the local passed to lex_program
        a = F.strip(lexcalls[0]["args"][0])
        roots = [a]
        if a.get("k") == "Path" and "local" in a.get("res", {}):
            lid = a["res"]["local"]
            roots = [x["init"] for x, _ in F.walk(b["hir"]) if x.get("k") == "Let" and x.get("pat", {}).get("k") == "Bind"
                     and x["pat"].get("id") == lid and x.get("init")]
        for r in roots:
            conv += [x.get("name") for x, _ in F.walk(r) if x.get("k") == "MethodCall" and x.get("name") not in ("branch",)]
    ok = len(lexcalls) == 1 and conv and set(conv) <= {"extract", "to_str", "to_cow", "as_ref", "as_str"}
    cx.ob("R-PY-SOURCE", "lossless-source", bool(ok), b["span"],
          "the lexed text is the PyString extracted losslessly (%s)" % conv if ok else
          "the text given to lex_program comes from %s: a lossy conversion makes offsets describe a different string than the caller's" % conv)
    # --- Python side: the wrapper hands the caller's string to the extension unchanged -----------------
    try:
        tree = ast.parse(open(os.path.join(pydir, "lexer.py")).read())
    except (OSError, SyntaxError):
        tree = None
    okp, whyp = False, "lex_program_from_str not found in src/sas_lexer/lexer.py"
    if tree is not None:
        for node in ast.walk(tree):
            if isinstance(node, ast.FunctionDef) and node.name == "lex_program_from_str":
                params = [a.arg for a in node.args.args]
                calls = [c for c in ast.walk(node) if isinstance(c, ast.Call) and isinstance(c.func, ast.Name) and c.func.id == "_lex_program_from_str"]
                rebound = [t for st_ in ast.walk(node) for t in (getattr(st_, "targets", None) or [getattr(st_, "target", None)])
                           if isinstance(st_, (ast.Assign, ast.AugAssign, ast.AnnAssign)) and isinstance(t, ast.Name) and t.id in params]
                if len(calls) != 1 or len(calls[0].args) != 1 or calls[0].keywords:
                    whyp = "lex_program_from_str does not make exactly one call _lex_program_from_str(<source>)"
                elif not (isinstance(calls[0].args[0], ast.Name) and calls[0].args[0].id in params):
                    whyp = "the text passed to the extension is %s, not the caller's string: offsets then describe a different string" % ast.unparse(calls[0].args[0])
                elif rebound:
                    whyp = "parameter %s is re-assigned before the call" % rebound[0].id
                else:
                    okp, whyp = True, "the wrapper passes its parameter `%s` to the extension unchanged" % calls[0].args[0].id
    cx.ob("R-PY-SOURCE", "python-passthrough", okp, "src/sas_lexer/lexer.py", whyp)
    # --- Python side: what the wrapper returns is what the extension produced, component by component --
    okr, whyr = False, "lex_program_from_str not found in src/sas_lexer/lexer.py"
    if tree is not None:
        for node in ast.walk(tree):
            if isinstance(node, ast.FunctionDef) and node.name == "lex_program_from_str":
                okr, whyr = _py_result_passthrough(node)
    cx.ob("R-PY-SOURCE", "python-result-passthrough", okr, "src/sas_lexer/lexer.py", whyr)
    oks, whys = False, "lex_program_from_str not found in src/sas_lexer/lexer.py"
    if tree is not None:
        for node in ast.walk(tree):
            if isinstance(node, ast.FunctionDef) and node.name == "lex_program_from_str":
                oks, whys = _py_wrapper_stateless(tree, node)
    cx.ob("R-PY-SOURCE", "python-fresh-result", oks, "src/sas_lexer/lexer.py", whys)
    cx.count("R-WIRE", "fields", nfields)
    cx.count("R-ENUMS", "values", nvals)
    cx.assume("rmp_serde / serde_repr / msgspec positional encoding contracts; runtime behaviour of the published crate is outside the tree")
