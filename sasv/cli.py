"""./check <Cnn> [--tier quick|thorough] [--replay <file>]"""
import json
import os
import sys
import traceback

from . import report


def main(argv):
    if not argv:
        print("usage: check <property-id> [--tier quick|thorough] [--replay file]")
        return 2
    pid = argv[0]
    tier = os.environ.get("VERIF_TIER", "quick")
    seed = int(os.environ.get("VERIF_SEED", "0") or 0)
    i = 1
    replay = None
    while i < len(argv):
        if argv[i] == "--tier":
            tier = argv[i + 1]
            i += 2
        elif argv[i] == "--replay":
            replay = argv[i + 1]
            i += 2
        else:
            i += 1
    if tier not in ("quick", "thorough"):
        tier = "quick"
    if replay:
        with open(replay) as f:
            print(json.dumps(json.load(f), indent=1))
        print("replay: re-run `./check %s` — the verdict is recomputed from /repo's current source" % pid)
    from . import props
    if pid not in props.PROPS:
        print("unknown or unclaimed property %s" % pid)
        return 2
    cx = report.Ctx(pid, tier, seed)
    try:
        cx.ensure()
        level_text = props.run(cx)
        if tier == "thorough" and not os.environ.get("SASV_REPO"):
            from . import selftest
            if not selftest.run(cx):
                bad = [m for m in cx.analysed["selftest"]["mutants"] + cx.analysed["selftest"]["benign"] if not m.get("ok")]
                cx.finish(level_text)
                print("BROKEN-CHECK property=%s: checker self-test failed on %s" % (pid, [b["label"] for b in bad]))
                return 2
        return cx.finish(level_text)
    except report.Broken as ex:
        print("BROKEN-CHECK property=%s: %s" % (pid, ex))
        return 2
    except Exception:
        traceback.print_exc()
        print("BROKEN-CHECK property=%s: internal error in the checker" % pid)
        return 2


if __name__ == "__main__":
    sys.exit(main(sys.argv[1:]))
