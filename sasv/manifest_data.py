"""Texts for MANIFEST.json."""
DEFAULT_NOTE = ("Trusted: rustc nightly's HIR/MIR for the extracted configurations, the sasfacts serializer, the sasv "
                "rule implementations and the frozen tables under /verif/tables. The decided clauses are necessary "
                "conditions of the property; passing them does not prove the behavioural property for all inputs.")
LEVEL_NOTE = {}
LEA = ("static analysis: path-sensitive effect/typestate analysis (LEA) over rustc's type-checked HIR - all paths of "
       "Lexer::lex_token per lexer mode, crate-local calls inlined, loops peeled once and widened - ")
TECHNIQUE = {
    "C01": LEA + "progress, panic-reachability and checkpoint-typestate rules; structural pairing rule on counters",
    "C02": "static analysis: structural HIR rules (rollback/restore agreement, EOF ownership, cfg-differential diff) + "
           "LEA offset-provenance and emission-order rules",
    "C03": "static analysis: structural HIR/MIR rules - cursor count pairing in debug and release MIR, byte/code-point "
           "dimension (units) analysis",
    "C04": LEA + "newline/add_line pairing, look-ahead evidence for counts, dispatcher/scanner commutation probe",
    "C05": "static analysis: sibling-implementation agreement - symbolic evaluation of accessor and bulk-view HIR on "
           "order-type witnesses; units analysis",
    "C06": LEA + "per-emission channel/type, spelling, non-emptiness, delimiter, orphan-consumption and keyword-table-flow rules",
    "C07": LEA + "literal-section anchoring rules and commutation probe; structural hex-sink and rollback rules",
    "C09": LEA + "checkpoint typestate incl. live-checkpoint region exploration, speculation purity, error/recovery "
           "pairing and ordering",
    "C10": LEA + "retype guards, expectation tables per keyword, finalize-once, token-group rules",
    "C11": LEA + "pending-statement flag, datalines look-behind, delimiter shape, spelling and keyword-table-flow rules on open-code paths",
    "C12": LEA + "mode push-order rule (whitespace-blind modes vs exit guarantees), expectation tables, checkpoint "
           "residue; structural counter pairing",
    "C13": LEA + "nesting write-back, depth-zero guard and dispatcher/scanner commutation probe for %-quoting",
    "C14": LEA + "expectation tables per keyword and error/recovery-token pairing incl. finalize_lexing",
    "C15": "static analysis: state inventory, history-length and look-behind rules over HIR + LEA checkpoint typestate",
    "C16": "static analysis: case-closure lint over HIR patterns/comparisons + upper-case dataflow (def-use) rule",
    "C17": "static analysis: structural BOM-ordering rule and units analysis over HIR",
    "C18": "static analysis: cfg-differential (feature on/off) HIR diff + guard rule for every MacroSep emission",
    "C19": "static analysis: state/effect inventory, cfg-differential diffs (debug, nightly), unsafe-guard rule, cursor "
           "MIR pairing in both profiles + LEA panic reachability",
    "C20": "static analysis: wire-schema agreement between the linked crate's ADT/Serialize facts (rustc) and the "
           "Python classes (ast), enum discriminant agreement, source-provenance rule",
}
DESIGN_REF = {"C16": "DESIGN.md §3 C16"}
NOT_APPLICABLE = {
    "C08": "numeric payload values are value-level (correct rounding of `lexical`, longest-match over all spellings): "
           "no sound static argument in reach; the one shape-visible clause (full-match guard) is checked under C13",
}
SOURCE_COMMITS = []
NOTES = ("Static analysis only: every verdict is computed from /repo's current source (rustc HIR/MIR via a custom "
         "driver on a scratch copy); no check lexes an input. See DESIGN.md.")
