"""Texts for MANIFEST.json."""
DEFAULT_NOTE = ("Trusted: rustc nightly's HIR/MIR for the extracted configurations, the sasfacts serializer, the sasv "
                "rule implementations and the frozen tables under /verif/tables. The decided clauses are necessary "
                "conditions of the property; passing them does not prove the behavioural property for all inputs.")
LEVEL_NOTE = {}
TECHNIQUE = {
    "C16": "static analysis: case-closure lint over HIR patterns/comparisons + upper-case dataflow (def-use) rule",
}
DESIGN_REF = {"C16": "DESIGN.md §3 C16"}
NOT_APPLICABLE = {
    "C08": "numeric payload values are value-level (correct rounding of `lexical`, longest-match over all spellings): "
           "no sound static argument in reach; the one shape-visible clause (full-match guard) is checked under C13",
}
SOURCE_COMMITS = []
NOTES = ("Static analysis only: every verdict is computed from /repo's current source (rustc HIR/MIR via a custom "
         "driver on a scratch copy); no check lexes an input. See DESIGN.md.")
