"""Structural rules over the HIR facts (no path enumeration): R-RESTORE, R-CURSOR-COUNT, R-UNITS,
R-PAIR-COUNTERS, R-9009, R-HEX-SINK, R-UNSAFE-GUARD, R-BOM-ORDER, R-EOF, R-STATE-INVENTORY, R-NO-ABSOLUTE."""
import re

from . import facts as F

PLAIN = ("Block", "BlockExpr", "Semi", "Expr", "DropTemps", "Use")


def live_walk(node, parents=()):
    """Like F.walk, but at `if <literal bool>` (cfg!(..) after expansion) only the live branch is followed."""
    yield node, parents
    np = parents + (node,)
    if node.get("k") == "If":
        c = F.lit_of(node["cond"])
        if c is not None and c[0] == "bool":
            br = node["then"] if c[1] else node.get("else")
            if br is not None:
                yield from live_walk(br, np)
            return
    for _k, c in F.children(node):
        yield from live_walk(c, np)


def top_level_stmts(body):
    """Statements of the function body block (through plain nested blocks), in order."""
    out = []

    def rec(n):
        n = F.strip(n) if n.get("k") in ("DropTemps", "Use") else n
        k = n.get("k")
        if k == "BlockExpr":
            rec(n["b"])
        elif k == "Block":
            for s in n["stmts"]:
                if s.get("k") in ("Semi", "Expr"):
                    rec(s["e"])
                else:
                    out.append(s)
            if n.get("expr") is not None:
                rec(n["expr"])
        else:
            out.append(n)
    rec(body)
    return out


def contains(node, pred):
    for x, _ in F.walk(node):
        if pred(x):
            return True
    return False


def is_self_field(n, name):
    n = F.strip(n)
    return n.get("k") == "Field" and n.get("name") == name and F.strip(n["base"]).get("k") == "Path" and \
        F.strip(n["base"])["res"].get("name") == "self"


def field_chain(n):
    """a.b.c -> ['a','b','c'] for Path/Field chains (through & and deref)."""
    n = F.strip(n)
    out = []
    while True:
        if n.get("k") == "Field":
            out.append(n["name"])
            n = F.strip(n["base"])
        elif n.get("k") == "Unary" and n.get("op") == "Deref":
            n = F.strip(n["e"])
        elif n.get("k") == "Path":
            out.append(n["res"].get("name") or F.norm(n["res"].get("def", "?")))
            break
        else:
            out.append("?")
            break
    return list(reversed(out))


# ---------------------------------------------------------------------------

def r_restore(cx, fx):
    """rollback restores cursor, mode-stack length and truncates tokens / lines / literal buffer to exactly
    what checkpoint captured, unconditionally."""
    rule = "R-RESTORE"
    cx.rules_run.append(rule)
    n_ok = 0
    cp = fx.fn("buffer::WorkTokenizedBuffer::checkpoint")
    rb = fx.fn("buffer::WorkTokenizedBuffer::rollback")
    if cp is None or rb is None:
        cx.violation(rule, "anchors", "", "WorkTokenizedBuffer::checkpoint/rollback not found")
        return
    # field -> vector captured
    captured = {}
    for node, par in F.walk(cp["hir"]):
        if node.get("k") == "Struct" and F.norm(node["res"].get("def", "")).endswith("WorkBufferCheckpoint"):
            for f in node["fields"]:
                e = F.strip(f["e"])
                while e.get("k") == "Cast":
                    e = F.strip(e["e"])
                if e.get("k") == "MethodCall" and e.get("name") == "len":
                    ch = field_chain(e["recv"])
                    captured[f["name"]] = ch[-1]
    vectors = {"token_infos", "line_infos", "string_literals_buffer"}
    cx.ob(rule, "buffer.checkpoint|captures", set(captured.values()) == vectors, cp["span"],
          "WorkBufferCheckpoint captures the lengths of %s" % sorted(captured.values()))
    stmts = top_level_stmts(rb["hir"])
    seen = {}
    blocked = False
    for s in stmts:
        e = F.strip(s.get("e", s)) if s.get("k") in ("Semi", "Expr") else F.strip(s)
        if e.get("k") == "MethodCall" and e.get("name") == "truncate" and not blocked:
            vec = field_chain(e["recv"])[-1]
            arg = field_chain(e["args"][0])
            seen[vec] = arg[-1]
        if contains(s, lambda x: x.get("k") in ("Ret", "Break", "Continue")) or F.strip(s).get("k") in ("If", "Match", "Loop") and \
                contains(s, lambda x: x.get("k") == "Ret"):
            blocked = True
    for vec in sorted(vectors):
        fld = [k for k, v in captured.items() if v == vec]
        ok = vec in seen and fld and seen[vec] == fld[0]
        n_ok += 1
        cx.ob(rule, "buffer.rollback|%s" % vec, bool(ok), rb["span"],
              ("%s is truncated unconditionally to checkpoint.%s" % (vec, fld[0] if fld else "?")) if ok else
              ("%s is not truncated on every path of WorkTokenizedBuffer::rollback to the length checkpoint() captured "
               "(found: %s): tokens/lines/literals lexed speculatively survive a rollback" % (vec, seen.get(vec))))
    # Lexer::checkpoint / rollback
    lcp = fx.fn("Lexer::checkpoint")
    lrb = fx.fn("Lexer::rollback")
    cap = {}
    if lcp:
        for node, par in F.walk(lcp["hir"]):
            if node.get("k") == "Struct" and F.norm(node["res"].get("def", "")).endswith("LexerCheckpoint"):
                for f in node["fields"]:
                    e = F.strip(f["e"])
                    if e.get("k") == "MethodCall":
                        cap[f["name"]] = (e.get("name"), field_chain(e["recv"])[-1])
    ok = cap.get("cursor") == ("clone", "cursor") and cap.get("mode_stack_len") == ("len", "mode_stack") and \
        cap.get("buffer_checkpoint") == ("checkpoint", "buffer")
    cx.ob(rule, "lexer.checkpoint|captures", ok, lcp["span"] if lcp else "",
          "LexerCheckpoint captures cursor.clone(), mode_stack.len(), buffer.checkpoint()" if ok else "LexerCheckpoint captures %s" % cap)
    if lrb:
        # statements of the `Some(checkpoint)` branch
        then = None
        for node, par in F.walk(lrb["hir"]):
            if node.get("k") == "If" and node["cond"].get("k") == "LetCond":
                then = node["then"]
                break
        found = {"cursor": False, "mode_stack": False, "buffer": False}
        # locals bound by destructuring the checkpoint (`LexerCheckpoint { cursor, mode_stack_len: n, .. }`): local -> field
        pmap = {}
        for node, par in F.walk(lrb["hir"]):
            if node.get("k") == "Struct" and "fields" in node and F.norm((node.get("res") or {}).get("def", "")).endswith("LexerCheckpoint") \
                    and all("pat" in f for f in node["fields"]):
                for f in node["fields"]:
                    if f["pat"].get("k") == "Bind":
                        pmap[f["pat"]["id"]] = f["name"]

        def origin(e):
            e = F.strip(e)
            if e.get("k") == "Path" and (e.get("res") or {}).get("local") in pmap:
                return pmap[e["res"]["local"]]
            return field_chain(e)[-1]
        then_stmts = top_level_stmts(then) if then is not None else None
        if then_stmts is None:
            # `let Some(..) = self.checkpoint.take() else { ..; return };` - what follows is the restoring branch
            tl = top_level_stmts(lrb["hir"])
            for i, s in enumerate(tl):
                if s.get("k") == "Let" and s.get("els") is not None and s.get("init") is not None and \
                        contains(s["init"], lambda x: x.get("k") == "MethodCall" and x.get("name") == "take") and \
                        contains(s["els"], lambda x: x.get("k") == "Ret"):
                    then_stmts = tl[i + 1:]
                    break
        if then_stmts is not None:
            blocked = False
            for s in then_stmts:
                e = F.strip(s.get("e", s)) if s.get("k") in ("Semi", "Expr") else F.strip(s)
                if not blocked:
                    if e.get("k") == "Assign" and is_self_field(e["l"], "cursor") and origin(e["r"]) == "cursor":
                        found["cursor"] = True
                    if e.get("k") == "MethodCall" and e.get("name") == "truncate" and field_chain(e["recv"])[-1] == "mode_stack" \
                            and origin(e["args"][0]) == "mode_stack_len":
                        found["mode_stack"] = True
                    if e.get("k") == "MethodCall" and e.get("name") == "rollback" and field_chain(e["recv"])[-1] == "buffer" \
                            and origin(e["args"][0]) == "buffer_checkpoint":
                        found["buffer"] = True
                if contains(s, lambda x: x.get("k") in ("Ret", "Break")):
                    blocked = True
        for k2, v in found.items():
            cx.ob(rule, "lexer.rollback|%s" % k2, v, lrb["span"],
                  "Lexer::rollback restores %s from the checkpoint unconditionally" % k2 if v else
                  "Lexer::rollback does not restore %s from the checkpoint on every path" % k2)
    cx.count(rule, "restored_components", 6)


def r_cursor_count(cx, tags):
    """Every successful chars.next() in Cursor::advance / advance_by is accounted by +1 on char_offset (C03)."""
    rule = "R-CURSOR-COUNT"
    cx.rules_run.append(rule)
    sites = 0
    for tag in tags:
        fx = cx.facts(tag)
        adv = fx.fn("cursor::Cursor::advance")
        aby = fx.fn("cursor::Cursor::advance_by")
        if adv is None or aby is None:
            cx.violation(rule, "anchors|%s" % tag, "", "Cursor::advance/advance_by not found in config %s" % tag)
            continue

        def next_calls(root):
            return [x for x, _ in live_walk(root) if x.get("k") == "MethodCall" and x.get("name") == "next"
                    and field_chain(x["recv"])[-1] == "chars"]

        def offset_adds(root):
            """`self.char_offset += e` and `self.char_offset = self.char_offset + e` (either operand order);
            returned with the node normalised so that node["r"] is the amount e."""
            out = []
            for x, par in live_walk(root):
                if x.get("k") == "AssignOp" and x.get("op") == "AddAssign" and is_self_field(x["l"], "char_offset"):
                    out.append((x, par))
                elif x.get("k") == "Assign" and is_self_field(x["l"], "char_offset"):
                    r = F.strip(x["r"])
                    if r.get("k") == "Binary" and r.get("op") == "Add":
                        if is_self_field(r["l"], "char_offset"):
                            out.append(({"k": "AssignOp", "op": "AddAssign", "l": x["l"], "r": r["r"], "sp": x.get("sp")}, par))
                        elif is_self_field(r["r"], "char_offset"):
                            out.append(({"k": "AssignOp", "op": "AddAssign", "l": x["l"], "r": r["l"], "sp": x.get("sp")}, par))
            return out
        # advance: one next(), one unconditional `char_offset += 1` after it
        nc = next_calls(adv["hir"])
        oa = offset_adds(adv["hir"])
        ok = len(nc) == 1 and len(oa) == 1 and F.lit_of(oa[0][0]["r"]) == ("int", 1) and \
            all(p.get("k") in PLAIN or ("stmts" in p) for p in oa[0][1])
        sites += 1
        cx.ob(rule, "advance|%s" % tag, ok, adv["span"],
              "advance(): one chars.next() and one unconditional char_offset += 1" if ok else
              "advance(): %d chars.next() call(s), %d char_offset increments (%s): char offsets drift from code points"
              % (len(nc), len(oa), [F.lit_of(x[0]["r"]) for x in oa]))
        # advance_by: the counting loop consumes one char per iteration on the live branch; normal exit adds n
        loops = [x for x, _ in live_walk(aby["hir"]) if x.get("k") == "Loop"]
        n_param = None
        for p in aby["params"]:
            for x, _ in F.walk(p):
                if x.get("k") == "Bind" and x.get("name") == "n":
                    n_param = x["id"]
        ok_loop = len(loops) == 1
        per_iter = None
        if ok_loop:
            # for-loop desugaring: Loop { match next(iter) { None => break, Some(i) => body } }
            per_iter = [c for c in next_calls(loops[0]["body"])]
            ok_loop = len(per_iter) == 1
        after = [x for x, par in offset_adds(aby["hir"]) if not any(p is loops[0] for p in par)] if loops else []
        ok_after = len(after) == 1 and F.strip(after[0]["r"]).get("k") == "Path" and F.strip(after[0]["r"])["res"].get("local") == n_param
        # delegating form: advance_by does no accounting of its own and calls self.advance() once per iteration;
        # the per-character obligation is then the one checked on advance() above
        if len(loops) == 1 and not next_calls(aby["hir"]) and not offset_adds(aby["hir"]):
            deleg = [x for x, _ in live_walk(loops[0]["body"]) if x.get("k") == "MethodCall" and
                     F.norm(x.get("def") or "") == "cursor::Cursor::advance"]
            outside = [x for x, par in live_walk(aby["hir"]) if x.get("k") == "MethodCall" and
                       F.norm(x.get("def") or "") == "cursor::Cursor::advance" and not any(p is loops[0] for p in par)]
            if len(deleg) == 1 and not outside:
                ok_loop = ok_after = True
        sites += 1
        cx.ob(rule, "advance_by|loop|%s" % tag, ok_loop, aby["span"],
              "advance_by(): exactly one chars.next() per loop iteration in configuration %s" % tag if ok_loop else
              "advance_by(): the live branch of configuration %s has %s chars.next() call(s) per iteration" % (tag, None if per_iter is None else len(per_iter)))
        cx.ob(rule, "advance_by|total|%s" % tag, ok_after, aby["span"],
              "advance_by(): char_offset += n after consuming n chars" if ok_after else
              "advance_by(): after the loop char_offset is not advanced by exactly n")
        # nobody else writes the two fields
        writers = []
        for fname, b in fx.bodies.items():
            if fx.is_derive(fname):
                continue
            for x, par in F.walk(b["hir"]):
                if x.get("k") in ("Assign", "AssignOp"):
                    ch = field_chain(x["l"])
                    if ch[-1] in ("char_offset", "chars") and "Cursor" in (F.strip(x["l"]).get("base", {}).get("ty") or ""):
                        if fname.split("::")[-1] not in ("advance", "advance_by") or ch[-1] == "chars":
                            writers.append("%s (%s)" % (fname, ch[-1]))
        cx.ob(rule, "writers|%s" % tag, not writers, "", "only advance/advance_by update Cursor.char_offset" if not writers else
              "Cursor.char_offset / chars written in %s" % writers)
    cx.count(rule, "sites", sites)
    cx.assume("Cursor::advance_by's early-exit branch (fewer than n chars left) is not constrained: R-ADVANCE-EVIDENCE shows "
              "every caller passes a count backed by look-ahead, so the branch is unreachable")


# ---------------------------------------------------------------------------
# R-UNITS: byte vs code-point quantities

BYTE, CHAR, NEUTRAL, UNKNOWN, MIXED = "byte", "char", "neutral", "unknown", "MIXED"


def name_unit(nm):
    """Unit declared by an identifier: ..._byte_..., ..._char_... (the repo's own naming convention)."""
    import re
    if re.search(r"(^|_)bytes?(_|$)", nm):
        return BYTE
    if re.search(r"(^|_)chars?(_|$)", nm):
        return CHAR
    return None


def is_plain_int(ty):
    return ty in ("u32", "usize", "u64", "i32", "i64", "u16", "isize")


class Units:
    def __init__(self, fx, fname, body):
        self.fx, self.fname, self.body = fx, fname, body
        self.inits = {}
        for node, par in F.walk(body["hir"]):
            if node.get("k") == "Let" and node.get("init") is not None:
                self.bind(node["pat"], node["init"])
            if node.get("k") == "Assign":
                l = F.strip(node["l"])
                if l.get("k") == "Path" and "local" in l.get("res", {}):
                    self.inits.setdefault(l["res"]["local"], []).append(node["r"])
        self.memo = {}

    def bind(self, pat, init):
        if pat.get("k") == "Bind":
            self.inits.setdefault(pat["id"], []).append(init)
        elif pat.get("k") == "Tuple":
            i = F.strip(init)
            if i.get("k") == "Tup" and len(i["elems"]) == len(pat["pats"]):
                for q, e in zip(pat["pats"], i["elems"]):
                    self.bind(q, e)

    def join(self, a, b):
        if a == b:
            return a
        if a in (NEUTRAL,):
            return b
        if b in (NEUTRAL,):
            return a
        if UNKNOWN in (a, b):
            return UNKNOWN
        return MIXED

    def unit(self, n, depth=0):
        n = F.strip(n)
        if depth > 12:
            return UNKNOWN
        ty = n.get("ty") or ""
        if ty.endswith("text::ByteOffset"):
            return BYTE
        if ty.endswith("text::CharOffset"):
            return CHAR
        k = n.get("k")
        if k == "Lit":
            return NEUTRAL
        if k == "Cast":
            return self.unit(n["e"], depth + 1)
        if k == "Path":
            r = n["res"]
            if "local" in r:
                us = [self.unit(i, depth + 1) for i in self.inits.get(r["local"], [])]
                if not us:
                    nm = r.get("name") or ""
                    return name_unit(nm) or UNKNOWN
                u = us[0]
                for x in us[1:]:
                    u = self.join(u, x)
                return u
            return NEUTRAL if r.get("dk", "").startswith(("Const", "AssocConst")) else UNKNOWN
        if k == "Field":
            nm = n["name"]
            if nm in ("byte_offset", "source_len", "at_byte_offset"):
                return BYTE
            if nm in ("char_offset", "start", "at_char_offset"):
                return CHAR
            if nm == "0":
                return self.unit(n["base"], depth + 1)
            if nm in ("length",):
                return BYTE
            return UNKNOWN
        if k == "MethodCall":
            nm = n.get("name")
            d = F.norm(n.get("def") or "")
            if nm in ("remaining_len", "cur_byte_offset"):
                return BYTE
            if nm in ("char_offset", "cur_char_offset"):
                return CHAR
            if nm == "count" and "chars" in repr(F.strip(n["recv"]).get("name")):
                return CHAR
            if nm == "len":
                rty = F.strip(n["recv"]).get("ty") or ""
                if "str" in rty or "String" in rty or "[u8]" in rty:
                    return BYTE
                return NEUTRAL
            if nm in ("get", "into", "unwrap_or", "min", "max", "saturating_sub", "wrapping_add", "unwrap_or_default"):
                u = self.unit(n["recv"], depth + 1)
                for a in n["args"]:
                    if nm in ("min", "max", "saturating_sub", "unwrap_or"):
                        u = self.join(u, self.unit(a, depth + 1))
                return u
            return UNKNOWN
        if k == "Call":
            d = F.norm(n.get("def") or "")
            if d.endswith("::from") or d.endswith("::into") or d.endswith("usize::from") or d.endswith("u32::from"):
                a = n["args"][0]
                if (F.strip(a).get("ty") or "") == "bool":
                    return NEUTRAL
                return self.unit(a, depth + 1)
            if d.endswith("ByteOffset::new"):
                return BYTE
            if d.endswith("CharOffset::new"):
                return CHAR
            return UNKNOWN
        if k == "Binary" and n.get("op") in ("Add", "Sub"):
            return self.join(self.unit(n["l"], depth + 1), self.unit(n["r"], depth + 1))
        if k == "Binary" and n.get("op") in ("Mul", "Div", "Rem", "Shl", "Shr", "BitAnd"):
            return NEUTRAL
        if k == "If":
            u = self.unit(n["then"], depth + 1)
            if n.get("else") is not None:
                u = self.join(u, self.unit(n["else"], depth + 1))
            return u
        if k == "BlockExpr" and n["b"].get("expr") is not None:
            return self.unit(n["b"]["expr"], depth + 1)
        if k == "Match":
            u = None
            for a in n["arms"]:
                x = self.unit(a["body"], depth + 1)
                u = x if u is None else self.join(u, x)
            return u or UNKNOWN
        return UNKNOWN


def payload_fns(fx):
    """Functions that build a *string* payload from source text: they construct `Payload::StringLiteral`, append to
    the string-literal buffer, or call the hex decoder."""
    out = set()
    for fname, b in fx.bodies.items():
        if fx.is_derive(fname) or b["kind"] not in ("Fn", "AssocFn"):
            continue
        for node, _ in F.walk(b["hir"]):
            d = node.get("def") or (node.get("res") or {}).get("def") or ""
            if not d:
                continue
            dn = F.norm(d)
            if dn.endswith("Payload::StringLiteral") or "add_string_literal" in dn or "hex::" in dn:
                out.add(fname)
                break
    return out


def column_fns(fx):
    """Functions that compute a column: they mention a parameter / field / local whose name contains `column`, or build
    an `ErrorInfo` (whose constructor takes the column)."""
    out = set()
    for fname, b in fx.bodies.items():
        if fx.is_derive(fname) or b["kind"] not in ("Fn", "AssocFn"):
            continue
        if "column" in fname.lower():
            out.add(fname)
            continue
        for node, _ in F.walk(b["hir"]):
            nm = node.get("name") or ""
            d = F.norm(node.get("def") or (node.get("res") or {}).get("def") or "")
            if (isinstance(nm, str) and "column" in nm.lower()) or d.endswith("ErrorInfo::new"):
                out.add(fname)
                break
    return out


def r_units(cx, tags, only_fns=None, rule_name="R-UNITS"):
    """`only_fns(fx) -> set of function names`: restrict the rule to those functions (the instances that are a
    necessary condition of the property the rule is attached to; reported under `rule_name`)."""
    rule = rule_name
    cx.rules_run.append(rule)
    sites = 0
    seen = set()
    for tag in tags:
        fx = cx.facts(tag)
        keep = only_fns(fx) if only_fns else None
        for fname, b in fx.bodies.items():
            if fx.is_derive(fname) or b["kind"] not in ("Fn", "AssocFn"):
                continue
            if keep is not None and fname not in keep:
                continue
            U = None
            for node, par in F.walk(b["hir"]):
                k = node.get("k")
                checks = []
                if k == "Call" and F.norm(node.get("def") or "").endswith(("ByteOffset::new", "CharOffset::new")):
                    want = BYTE if "ByteOffset" in node["def"] else CHAR
                    checks.append(("new|" + want, want, node["args"][0]))
                elif k == "MethodCall" and node.get("name") == "get" and ("str" in (F.strip(node["recv"]).get("ty") or "")):
                    a = F.strip(node["args"][0])
                    if a.get("k") == "Struct":
                        for f in a["fields"]:
                            checks.append(("str.get|" + f["name"], BYTE, f["e"]))
                elif k == "Index" and ("str" in (F.strip(node["base"]).get("ty") or "")):
                    a = F.strip(node["idx"])
                    if a.get("k") == "Struct":
                        for f in a["fields"]:
                            checks.append(("str[..]|" + f["name"], BYTE, f["e"]))
                elif k == "Binary" and node.get("op") in ("Lt", "Le", "Gt", "Ge", "Eq", "Ne", "Sub", "Add"):
                    checks.append(("binop|" + node["op"], "same", (node["l"], node["r"])))
                elif k == "Struct" and node.get("fields") and not node.get("exp"):
                    # plain-integer fields whose *name* declares the unit (at_byte_offset, at_char_offset, ...)
                    for f in node["fields"]:
                        want = name_unit(f.get("name") or "")
                        if want and "e" in f and is_plain_int(F.strip(f["e"]).get("ty") or ""):
                            checks.append(("field|%s.%s" % ((node.get("path") or node.get("ty") or "?").split("::")[-1], f["name"]), want, f["e"]))
                elif k in ("Call", "MethodCall") and (node.get("def") or "") and F.norm(node.get("def")) in fx.bodies and not node.get("exp"):
                    # plain-integer parameters of crate functions whose *name* declares the unit
                    cal = fx.bodies[F.norm(node["def"])]
                    params = cal.get("params", [])
                    args = list(node.get("args", []))
                    if k == "MethodCall":
                        args = [node["recv"]] + args
                    for prm, a in zip(params, args):
                        pn = prm.get("name") if prm.get("k") == "Bind" else None
                        want = name_unit(pn or "")
                        if want and is_plain_int(F.strip(a).get("ty") or ""):
                            checks.append(("arg|%s(%s)" % (F.norm(node["def"]).replace("Lexer::", ""), pn), want, a))
                if not checks:
                    continue
                if U is None:
                    U = Units(fx, fname, b)
                for what, want, e in checks:
                    if want == "same":
                        ul, ur = U.unit(e[0]), U.unit(e[1])
                        in_assert = any("assert" in (p.get("mac") or "") for p in par) or "assert" in (node.get("mac") or "")
                        if in_assert and ((node["op"] in ("Le",) and ul == CHAR and ur == BYTE) or (node["op"] == "Ge" and ul == BYTE and ur == CHAR)):
                            # `chars <= bytes` is a sound (loose) bound in an assertion
                            continue
                        if {ul, ur} == {BYTE, CHAR} or MIXED in (ul, ur):
                            key = "%s|%s" % (fname.replace("Lexer::", ""), what)
                            cx.ob(rule, key, False, F.file_line(F.site(node)),
                                  "operator %s combines a byte quantity with a code-point quantity (%s vs %s): they differ after any multi-byte character"
                                  % (node["op"], ul, ur))
                        elif BYTE in (ul, ur) or CHAR in (ul, ur):
                            key = "%s|%s" % (fname.replace("Lexer::", ""), what)
                            if (key, tag) not in seen:
                                seen.add((key, tag))
                            sites += 1
                            cx.ob(rule, key, True, F.file_line(F.site(node)), "operands have the same unit (%s, %s)" % (ul, ur), nontrivial=False)
                        continue
                    u = U.unit(e)
                    key = "%s|%s" % (fname.replace("Lexer::", ""), what)
                    ok = u in (want, NEUTRAL) or (u == UNKNOWN)
                    sites += 1
                    cx.ob(rule, key, ok, F.file_line(F.site(node)),
                          ("%s receives a %s quantity" % (what, u)) if ok else
                          ("%s needs a %s quantity but receives a %s quantity: wrong after any multi-byte character" % (what, want, u)))
    cx.count(rule, "sites", sites)


# ---------------------------------------------------------------------------

def r_pair_counters(cx, fx):
    """macro_nesting_level / pending-stat frames are opened and closed only by the paired keywords (C12)."""
    rule = "R-PAIR-COUNTERS"
    cx.rules_run.append(rule)
    b = fx.fn("Lexer::dispatch_macro_call_or_stat")
    ops = {}
    if b is None:
        cx.violation(rule, "anchors", "", "dispatch_macro_call_or_stat not found")
        return
    from .lea_rules import SiteIndex, pat_text
    total = 0
    for fname, body in fx.bodies.items():
        if fx.is_derive(fname):
            continue
        for node, par in F.walk(body["hir"]):
            op = None
            if node.get("k") == "MethodCall" and F.norm(node.get("def") or "") in ("Lexer::push_pending_stat", "Lexer::pop_pending_stat"):
                op = node["name"]
            elif node.get("k") in ("Assign", "AssignOp") and is_self_field(node["l"], "macro_nesting_level"):
                r = node["r"]
                if node["k"] == "AssignOp":
                    op = "nesting+1" if node.get("op") == "AddAssign" else "nesting-1"
                else:
                    rr = F.strip(r)
                    op = "nesting-1" if rr.get("k") == "MethodCall" and rr.get("name") in ("saturating_sub", "wrapping_sub", "checked_sub") else "nesting=?"
            if op is None:
                continue
            if fname in ("Lexer::push_pending_stat", "Lexer::pop_pending_stat", "Lexer::new"):
                continue
            total += 1
            ctx = SiteIndex.arm_ctx(par) if fname == "Lexer::dispatch_macro_call_or_stat" else "outside:" + fname
            ops.setdefault(ctx, []).append(op)
    expect = {"KwmMacro": ["nesting+1", "push_pending_stat"], "KwmMend": ["nesting-1", "pop_pending_stat"],
              "KwmDo": ["push_pending_stat"], "KwmEnd": ["pop_pending_stat"]}
    for kw, want in expect.items():
        got = sorted(ops.get(kw, []))
        cx.ob(rule, "%s" % kw, got == sorted(want), b["span"],
              "%s arm performs exactly %s" % (kw, want) if got == sorted(want) else
              "%s arm performs %s, expected exactly %s: the nesting level / pending-statement frame is not restored by its closer" % (kw, got, want))
    extra = {k: v for k, v in ops.items() if k not in expect}
    cx.ob(rule, "no-other-sites", not extra, b["span"], "no other site changes macro_nesting_level or the pending-statement frames" if not extra else
          "frame/nesting operations outside the paired keyword arms: %s" % extra)
    cx.count(rule, "ops", total)
    # R-9009: the only pop of the pending stack is guarded by len() > 1
    pp = fx.fn("Lexer::pop_pending_stat")
    ok = False
    if pp:
        for node, par in F.walk(pp["hir"]):
            if node.get("k") == "MethodCall" and node.get("name") == "pop" and field_chain(node["recv"])[-1] == "pending_stat_stack":
                for p in par:
                    if p.get("k") == "If":
                        c = F.strip(p["cond"])
                        if c.get("k") == "Binary" and c.get("op") == "Gt" and F.lit_of(c["r"]) and F.lit_of(c["r"])[1] >= 1:
                            l = F.strip(c["l"])
                            if l.get("k") == "MethodCall" and l.get("name") == "len":
                                ok = True
    pops = 0
    for fname, body in fx.bodies.items():
        if fx.is_derive(fname):
            continue
        for node, par in F.walk(body["hir"]):
            if node.get("k") == "MethodCall" and node.get("name") in ("pop", "truncate", "clear") and field_chain(node["recv"])[-1] == "pending_stat_stack":
                pops += 1
    cx.rules_run.append("R-9009")
    cx.ob("R-9009", "pop_pending_stat|guard", ok and pops == 1, pp["span"] if pp else "",
          "the only pop of the pending-statement stack is guarded by len() > 1 (stack never empties: 9009 unreachable)" if ok and pops == 1 else
          "pending-statement stack can be emptied (guard missing or %d shrinking sites): InternalErrorEmptyPendingStatStack reachable" % pops)


def r_hex_sink(cx, fx):
    """Every {integer}::from_str_radix is dominated by an is_ascii_hexdigit validation of the same text (C07)."""
    rule = "R-HEX-SINK"
    cx.rules_run.append(rule)
    n = 0
    for fname, b in fx.bodies.items():
        if fx.is_derive(fname):
            continue
        sinks = [(x, par) for x, par in F.walk(b["hir"]) if x.get("k") == "Call" and (x.get("def") or "").endswith("from_str_radix")]
        if not sinks:
            continue
        validated = any(x.get("k") in ("MethodCall", "Call", "Path") and "is_ascii_hexdigit" in (x.get("name") or x.get("def") or str(x.get("res", {}).get("def")) or "")
                        for x, _ in F.walk(b["hir"]))
        for x, par in sinks:
            n += 1
            cx.ob(rule, "%s|from_str_radix" % fname, validated, F.file_line(F.site(x)),
                  "from_str_radix input is validated with is_ascii_hexdigit in the same function" if validated else
                  "from_str_radix accepts a leading '+' / '-' : the digit pairs are not validated with is_ascii_hexdigit, "
                  "so e.g. '+F'x is decoded as a hex pair")
    # the bytes are turned into text by the Latin-1 decoder (the property names the encoding)
    dec = []
    for fname, b in fx.bodies.items():
        if fx.is_derive(fname) or "tests" in fname:
            continue      # (every decoder call of the crate: a helper may do the decoding)
        for x, par in F.walk(b["hir"]):
            if x.get("k") == "MethodCall" and x.get("name") == "decode" and "encoding" in (x.get("def") or ""):
                dec.append((fname, F.const_of(F.strip(x["recv"])) or repr(F.strip(x["recv"]).get("k")), F.file_line(F.site(x))))
    okd = bool(dec) and all(d[1] is not None and d[1].endswith("::ISO_8859_1") for d in dec)
    cx.ob(rule, "decoder|latin1", okd, dec[0][2] if dec else "",
          "hex string bytes are decoded with encoding::all::ISO_8859_1 (byte-wise Latin-1)" if okd else
          "hex string bytes are decoded with %s, not ISO_8859_1: bytes 0x80-0x9F (and others) map to different characters" % [d[1] for d in dec])
    cx.count(rule, "sinks", n)


def r_unsafe_guard(cx, fx):
    rule = "R-UNSAFE-GUARD"
    cx.rules_run.append(rule)
    n = 0
    for fname, b in fx.bodies.items():
        if fx.is_derive(fname):
            continue
        for x, par in F.walk(b["hir"]):
            if x.get("k") == "Block" and x.get("unsafe") and not x.get("exp"):
                n += 1
                calls = [F.callee(c) for c, _ in F.walk(x) if F.is_call(c)]
                ok = all(c.endswith("from_utf8_unchecked") or not c for c in calls)
                # dominated by an ASCII/length early return: an `If` with `Ret` before it whose condition mentions is_ascii / len
                guard = False
                for node, p2 in F.walk(b["hir"]):
                    if node.get("k") == "If" and contains(node["then"], lambda y: y.get("k") == "Ret"):
                        txt = repr(node["cond"])
                        if "is_ascii" in txt or "_LEN" in txt or "len" in txt:
                            guard = True
                cx.ob(rule, "%s|unsafe" % fname, ok and guard, F.file_line(x.get("sp", b["span"])),
                      "unsafe block only calls from_utf8_unchecked on an ASCII buffer behind a non-ASCII/length early return" if ok and guard else
                      "unsafe block %s without the ASCII/length early return before it" % calls)
    cx.count(rule, "unsafe_blocks", n)


def r_bom_const(cx, fx, source_views=False):
    """The byte-order mark is looked at nowhere but in Lexer::new (what `new` does with it: LEA rule R-BOM-ORDER)."""
    rule = "R-BOM-USERS"
    cx.rules_run.append(rule)
    users = []
    for fname, b in fx.bodies.items():
        if fx.is_derive(fname) or b["kind"] not in ("Fn", "AssocFn"):
            continue
        for x, _ in F.walk(b["hir"]):
            if x.get("k") == "Path" and (F.const_of(x) or "").endswith("::BOM") or (x.get("k") == "Path" and F.const_of(x) == "BOM"):
                users.append(fname)
            if x.get("k") == "Lit" and x.get("v") == "\ufeff":
                users.append(fname)
    cx.ob(rule, "bom-users", bool(users) and set(users) <= {"Lexer::new"}, "",
          "the BOM is only looked at in Lexer::new" if users and set(users) <= {"Lexer::new"} else "BOM referenced in %s" % sorted(set(users)))
    cx.count(rule, "users", len(users))
    if not source_views:
        return
    # Nothing but `new` views the source text *from its beginning*: a prefix range (`..x`, `0..x`, `..`) or a whole-text
    # scan of `self.source` covers the skipped mark, so counts / searches over it differ by the mark (C17).  Views
    # with an explicit start (token ranges) are what the lexer uses everywhere else.
    cx.rules_run.append("R-BOM-VIEWS")
    WHOLE_TEXT = {"chars", "char_indices", "bytes", "lines", "find", "rfind", "split", "rsplit", "matches", "starts_with",
                  "strip_prefix", "trim", "trim_start", "as_bytes", "to_string", "to_owned", "split_at", "encode_utf16"}
    views = 0
    for fname, b in fx.bodies.items():
        if fx.is_derive(fname) or b["kind"] not in ("Fn", "AssocFn") or not fname.startswith("Lexer::") or fname == "Lexer::new":
            continue
        for x, _ in F.walk(b["hir"]):
            k = x.get("k")
            rng = None
            if k == "MethodCall" and is_self_field(x["recv"], "source"):
                views += 1
                if x.get("name") == "get" and x.get("args"):
                    rng = F.strip(x["args"][0])
                elif x.get("name") in WHOLE_TEXT:
                    cx.ob("R-BOM-VIEWS", "%s|source.%s" % (fname.replace("Lexer::", ""), x["name"]), False, F.file_line(F.site(x)),
                          "%s scans the whole source text with `self.source.%s(..)`: the text starts with the byte-order mark "
                          "that Lexer::new skipped, so the result depends on its presence" % (fname, x["name"]))
                    continue
            elif k == "Index" and is_self_field(x["base"], "source"):
                views += 1
                rng = F.strip(x["idx"])
            if rng is None:
                continue
            ok = False
            if rng.get("k") == "Struct":
                fields = {f["name"]: f["e"] for f in rng.get("fields", [])}
                st_e = fields.get("start")
                ok = st_e is not None and F.lit_of(st_e) != ("int", 0)
            elif rng.get("k") in ("Call", "MethodCall") and "Range" in (rng.get("ty") or ""):
                # RangeInclusive::new(start, end)
                a = F.call_args(rng)
                ok = bool(a) and F.lit_of(a[0]) != ("int", 0) and "RangeTo" not in (rng.get("ty") or "")
            cx.ob("R-BOM-VIEWS", "%s|source-view" % fname.replace("Lexer::", ""), ok, F.file_line(F.site(x)),
                  "the source is viewed from an explicit start offset" if ok else
                  "%s views the source text from its beginning (range without a start): the view covers the byte-order mark "
                  "Lexer::new skipped, so whatever is counted or searched in it depends on the mark's presence" % fname)
    cx.count("R-BOM-VIEWS", "source_views", views)


def r_eof(cx, fx):
    """TokenType::EOF is produced only by finalize_lexing and the into_detached fallback; lex() ends through them."""
    rule = "R-EOF"
    cx.rules_run.append(rule)
    # producer uses of the constant: an argument of a call, a struct-literal field, the right side of an assignment
    # (comparisons and patterns only *look* at the type)
    users = {}
    callers = {}
    for fname, b in fx.bodies.items():
        if fx.is_derive(fname) or b["kind"] not in ("Fn", "AssocFn") or b["hir"].get("exp"):
            continue   # (bodies generated by derive macros are expansion-rooted)
        for x, par in F.walk(b["hir"]):
            if x.get("k") in ("Call", "MethodCall") and not x.get("exp"):
                d = F.norm(x.get("def") or "")
                if d in fx.bodies:
                    callers.setdefault(d, set()).add(fname)
            if x.get("k") == "Path" and F.const_of(x) == "token_type::TokenType::EOF" and not x.get("exp"):
                produced = False
                child = x
                for p in reversed(par):
                    k = p.get("k")
                    if k in ("Call", "MethodCall"):
                        produced = any(a is child or contains(a, lambda y: y is x) for a in F.call_args(p))
                        break
                    if k == "Struct":
                        produced = True
                        break
                    if k == "Assign":
                        produced = p.get("r") is child or contains(p["r"], lambda y: y is x)
                        break
                    if k in ("Binary", "Match", "If", "Let", "LetCond", "Block", "BlockExpr") and k != "BlockExpr":
                        break
                    child = p
                if produced:
                    users.setdefault(fname, 0)
                    users[fname] += 1
    allowed = {"Lexer::finalize_lexing", "buffer::WorkTokenizedBuffer::into_detached"}
    # a helper that produces EOF is fine when every call of it (transitively) comes from the allowed functions
    ok_fns = set(allowed)
    changed = True
    while changed:
        changed = False
        for fn in list(users):
            if fn in ok_fns:
                continue
            cs = callers.get(fn, set())
            if cs and cs <= ok_fns:
                ok_fns.add(fn)
                changed = True
    extra = {k: v for k, v in users.items() if k not in ok_fns and not k.startswith("buffer::TokenizedBuffer") and "tests" not in k}
    cx.ob(rule, "eof-producers", not extra and bool(users), "", "EOF tokens are produced only in finalize_lexing / into_detached (or helpers only they call)" if not extra and users else
          "TokenType::EOF is produced in %s, reachable from outside finalize_lexing / into_detached" % sorted(extra))
    lex = fx.fn("Lexer::lex")
    ok = False
    why = "Lexer::lex not found"
    if lex:
        def calls_finalize(node, depth=0):
            for x, _ in F.walk(node):
                if x.get("k") in ("Call", "MethodCall"):
                    d = F.norm(x.get("def") or "")
                    if d == "Lexer::finalize_lexing":
                        return True
                    if depth < 2 and d in fx.bodies and d.startswith("Lexer::") and d != "Lexer::lex_token":
                        if calls_finalize(fx.bodies[d]["hir"], depth + 1):
                            return True
            return False
        stmts = top_level_stmts(lex["hir"])
        loop_at = None
        for n_, st_ in enumerate(stmts):
            if contains(st_, lambda y: y.get("k") == "Loop" and contains(y, lambda z: z.get("k") in ("Call", "MethodCall") and F.norm(z.get("def") or "") == "Lexer::lex_token")):
                loop_at = n_
        after = stmts[loop_at + 1:] if loop_at is not None else []
        fin = any(calls_finalize(st_) for st_ in after)
        # every LexResult built in non-test code takes its buffer from into_detached()
        bad_results = []
        nres = 0
        for fname, b in fx.bodies.items():
            if fx.is_derive(fname) or "tests" in fname or b["kind"] not in ("Fn", "AssocFn"):
                continue
            for x, _ in F.walk(b["hir"]):
                if x.get("k") == "Struct" and (x.get("path") or x.get("ty") or "").endswith("LexResult"):
                    nres += 1
                    for f in x.get("fields", []):
                        if f.get("name") == "buffer":
                            e = F.strip(f["e"])
                            src = [e]
                            if e.get("k") == "Path" and "local" in e.get("res", {}):
                                lid = e["res"]["local"]
                                src = [y["init"] for y, _ in F.walk(b["hir"]) if y.get("k") == "Let" and y.get("pat", {}).get("k") == "Bind"
                                       and y["pat"].get("id") == lid and y.get("init")]
                            if not src or not all(contains(q, lambda y: y.get("k") == "MethodCall" and y.get("name") == "into_detached") for q in src):
                                bad_results.append(fname)
        ok = loop_at is not None and fin and not bad_results and nres > 0
        why = ("lex(): after the token loop finalize_lexing() runs, and every LexResult takes its buffer from into_detached()" if ok else
               "lex(): %s" % ("no lex_token loop found" if loop_at is None else "finalize_lexing() is not called after the token loop" if not fin
                              else "a LexResult is built without into_detached() in %s" % sorted(set(bad_results)) if bad_results else "no LexResult literal found"))
    cx.ob(rule, "lex|tail", ok, lex["span"] if lex else "", why)
    cx.count(rule, "producers", len(users))


# ---------------------------------------------------------------------------
# R-COMUTATE: a scalar field that is maintained together with a container is maintained by *every* mutator

LEN_MUTATORS = {"push", "push_within_capacity", "insert", "truncate", "pop", "clear", "remove", "swap_remove", "extend",
                "extend_from_slice", "drain", "push_str", "retain", "append", "split_off", "resize", "set_len", "dedup"}


def comutate(fx):
    """[(struct, scalar field F, container V, mutator method lacking a write of F, methods that do both)].
    F is *coupled* to V when at least two non-constructor methods both change V's length and assign F (directly or
    through a method of the same struct they call)."""
    by_struct = {}
    for name, b in fx.bodies.items():
        if b.get("kind") != "AssocFn" or not b.get("impl_self") or fx.is_derive(name) or name.startswith("<"):
            continue
        by_struct.setdefault(b["impl_self"], {})[name] = b
    out = []
    stats = {"structs": 0, "containers": 0, "coupled": 0}
    for st_name, methods in by_struct.items():
        muts, writes, calls = {}, {}, {}
        for name, b in methods.items():
            m, w, c = set(), set(), set()
            returns_self = False
            for node, par in F.walk(b["hir"]):
                k = node.get("k")
                if k == "MethodCall":
                    r = F.strip(node["recv"])
                    if node.get("name") in LEN_MUTATORS and r.get("k") == "Field" and is_self_field(r, r.get("name")):
                        m.add(r["name"])
                    d = F.norm(node.get("def") or "")
                    if d in methods and d != name:
                        c.add(d)
                elif k in ("Assign", "AssignOp"):
                    l = F.strip(node["l"])
                    if l.get("k") == "Field" and is_self_field(l, l.get("name")):
                        w.add(l["name"])
            params = b.get("params") or []
            has_self = bool(params) and params[0].get("k") == "Bind" and params[0].get("name") == "self"
            if not has_self or not (params[0].get("ty") or "&mut").startswith("&mut"):
                continue      # constructors initialise everything at once; `self` by value consumes the object
            muts[name], writes[name], calls[name] = m, w, c
        if not muts:
            continue
        stats["structs"] += 1
        # coupling is judged on what a method does itself; a write through a same-struct callee discharges
        twrites = {n: set(w) for n, w in writes.items()}
        changed = True
        while changed:
            changed = False
            for n in twrites:
                for c in calls[n]:
                    if c in twrites and not twrites[c] <= twrites[n]:
                        twrites[n] |= twrites[c]
                        changed = True
        containers = set().union(*muts.values()) if muts else set()
        scalars = set().union(*writes.values()) - containers if writes else set()
        stats["containers"] += len(containers)
        for v in sorted(containers):
            mv = sorted(n for n in muts if v in muts[n])
            for f in sorted(scalars):
                both = [n for n in mv if f in writes[n]]
                if len(both) >= 2:
                    stats["coupled"] += 1
                    for n in mv:
                        if f not in twrites[n]:
                            out.append((st_name, f, v, n, both))
    return out, stats


class _ComutateFixture:
    """Tiny positive fixture: `cache` is written by push_item and cut, but not by put_at."""
    def __init__(self):
        def selff(name):
            return {"k": "Field", "name": name, "base": {"k": "Path", "res": {"local": 1, "name": "self"}}}

        def body(stmts):
            return {"kind": "AssocFn", "impl_self": "fixture::Buf", "span": "fixture:1:1", "params": [{"k": "Bind", "name": "self", "id": 1}],
                    "hir": {"k": "Block", "stmts": stmts, "expr": None}}

        def mut(method):
            return {"k": "MethodCall", "name": method, "def": "std::vec::Vec::" + method, "recv": selff("items"), "args": []}
        wr = {"k": "Assign", "l": selff("cache"), "r": {"k": "Lit", "lt": "int", "v": 0}}
        self.bodies = {"fixture::Buf::push_item": body([mut("push"), wr]), "fixture::Buf::cut": body([mut("truncate"), wr]),
                       "fixture::Buf::put_at": body([mut("insert")])}

    def is_derive(self, name):
        return False


def r_comutate(cx, tags):
    rule = "R-COMUTATE"
    cx.rules_run.append(rule)
    hits, _ = comutate(_ComutateFixture())
    cx.ob(rule, "selftest|fixture", len(hits) == 1 and hits[0][3].endswith("put_at"), "",
          "the co-mutation rule fires on its positive fixture (%d hit)" % len(hits))
    structs = 0
    for tag in tags:
        fx = cx.facts(tag)
        hits, stats = comutate(fx)
        structs = max(structs, stats["structs"])
        cx.analysed.setdefault(rule, {})[tag] = stats
        for st_name, f, v, n, both in hits:
            b = fx.bodies[n]
            cx.ob(rule, "%s|%s~%s|%s" % (st_name.split("::")[-1], f, v, n.split("::")[-1]), False, F.file_line(b["span"]),
                  "%s changes the length of `%s` without updating `%s`, which %s maintain together with it: the field goes "
                  "stale on this path (configuration %s)" % (n, v, f, ", ".join(x.split("::")[-1] for x in both), tag))
        cx.ob(rule, "all-mutators|%s" % tag, not hits, "", "every length-changing method updates the scalar fields coupled to the container "
              "(%d structs, %d containers, %d couplings)" % (stats["structs"], stats["containers"], stats["coupled"]) if not hits else "%d deviant mutator(s)" % len(hits))
    cx.count(rule, "structs", structs)


# ---------------------------------------------------------------------------
# R-ERRORS-APPEND-ONLY (C09, C14): the diagnostics list only grows

ERR_READONLY = {"len", "is_empty", "iter", "last", "first", "get", "as_slice", "clone", "contains", "capacity",
                "reserve", "into_iter", "to_vec", "binary_search_by_key", "iter_mut_never"}
ERR_APPEND = {"push", "extend", "extend_from_slice", "push_within_capacity"}


def r_errors_append_only(cx, fx):
    """`Lexer.errors` is written by `push` only and moved out once at the end.  Diagnostics are not part of the
    checkpoint (R-SPEC-PURITY: none is recorded while one is live), so any removal or rewrite - retain, truncate,
    pop, clear, sort, a fresh assignment - drops or disturbs a diagnostic whose recovery token is already in the
    buffer.  Who-may-write rule over the resolved field, not over text."""
    rule = "R-ERRORS-APPEND-ONLY"
    cx.rules_run.append(rule)
    appends = 0
    for fname, b in fx.bodies.items():
        if fx.is_derive(fname) or b["kind"] not in ("Fn", "AssocFn") or not fname.startswith("Lexer::"):
            continue
        for node, par in F.walk(b["hir"]):
            k = node.get("k")
            if k == "MethodCall":
                r = F.strip(node["recv"])
                while r.get("k") in ("AddrOf", "Unary") and r.get("e"):
                    r = F.strip(r["e"])
                if not is_self_field(r, "errors"):
                    continue
                name = node.get("name")
                key = "%s|errors.%s" % (fname.replace("Lexer::", ""), name)
                if name in ERR_APPEND:
                    appends += 1
                    cx.ob(rule, key, True, F.file_line(F.site(node)), "appends a diagnostic")
                elif name in ERR_READONLY:
                    cx.ob(rule, key, True, F.file_line(F.site(node)), "reads the diagnostics", nontrivial=False)
                else:
                    cx.ob(rule, key, False, F.file_line(F.site(node)),
                          "`self.errors.%s(..)` in %s: the diagnostics list is append-only (it is not rolled back and nothing "
                          "may be taken out of it); a removed or reordered diagnostic leaves its recovery token without the "
                          "error that explains it" % (name, fname))
            elif k in ("Assign", "AssignOp"):
                l = F.strip(node["l"])
                if is_self_field(l, "errors"):
                    cx.ob(rule, "%s|errors=" % fname.replace("Lexer::", ""), False, F.file_line(F.site(node)),
                          "`self.errors` is re-assigned in %s: the diagnostics list is append-only" % fname)
            elif k == "AddrOf" and node.get("mut") and is_self_field(node.get("e") or {}, "errors"):
                cx.ob(rule, "%s|&mut errors" % fname.replace("Lexer::", ""), False, F.file_line(F.site(node)),
                      "`&mut self.errors` escapes in %s: the rule cannot follow what is done to the diagnostics list" % fname)
    cx.count(rule, "append_sites", appends)


# ---------------------------------------------------------------------------
# R-STR-INDEX (C01): no unchecked str slicing outside the audited sites

def r_str_index(cx, fx):
    """`&text[a..b]` on a `str` panics if a bound is not on a char boundary or out of range - for a lexer fed arbitrary
    UTF-8 that is an input-dependent panic.  The crate slices with the checked `.get(range)`; the few unchecked sites are
    an audited table (function + range type, with the reason the bounds are boundaries).  Type-resolved: the indexed
    expression's type is `str` / `String`, whatever the local is called."""
    import json as _json
    import os
    rule = "R-STR-INDEX"
    cx.rules_run.append(rule)
    with open(os.path.join(os.path.dirname(os.path.dirname(os.path.abspath(__file__))), "tables", "str_index_sites.json")) as f:
        audited = _json.load(f)["sites"]
    n = checked = 0
    used = set()
    for fname, b in fx.bodies.items():
        if fx.is_derive(fname) or b["kind"] not in ("Fn", "AssocFn"):
            continue
        for x, _ in F.walk(b["hir"]):
            k = x.get("k")
            if k == "MethodCall" and x.get("name") in ("get", "get_mut") and "str" in (F.strip(x["recv"]).get("ty") or ""):
                checked += 1
            if k != "Index":
                continue
            bt = F.strip(x["base"]).get("ty") or ""
            it = F.strip(x["idx"]).get("ty") or ""
            if not ("str" in bt or "String" in bt) or "Range" not in it:
                continue
            n += 1
            rk = it.split("::")[-1].split("<")[0]
            key = "%s|%s" % (fname, rk)
            ok = key in audited
            used.add(key)
            cx.ob(rule, key, ok, F.file_line(F.site(x)),
                  "audited: " + audited[key] if ok else
                  "%s slices a str with `[..]` (%s): this panics when a bound is not a char boundary or past the end, which "
                  "depends on the input text; the crate's checked form is `.get(range)`" % (fname, rk))
    cx.count(rule, "checked_slices", checked)
    cx.count(rule, "unchecked_slices", n)


_SHIFTING = ("skip", "skip_while", "filter", "filter_map", "step_by", "rev", "chain", "flat_map", "flatten")


def r_enum_index(cx, fx):
    """R-ENUM-INDEX: `.enumerate()` numbers what reaches it from 0.  When that number is used, unadjusted, as a
    position of the container (wrapped into an index type such as `TokenIdx`, or used to index / `.get()` a container),
    nothing between the container's `.iter()` and the `.enumerate()` may drop or reorder elements (skip, filter, rev,
    step_by, ...): otherwise every index handed out is off by the number of dropped elements (seed C18m: the MacroSep is
    inserted `len - window` tokens too early).  An index that goes through `+`/`-` first is treated as adjusted and is
    not judged."""
    rule = "R-ENUM-INDEX"
    cx.rules_run.append(rule)
    n = 0
    for fname, b in fx.bodies.items():
        if fx.is_derive(fname) or b["kind"] not in ("Fn", "AssocFn"):
            continue
        for x, parents in F.walk(b["hir"]):
            if not (x.get("k") == "MethodCall" and F.norm(x.get("def") or "") == "std::iter::Iterator::enumerate"):
                continue
            chain = []
            r = F.strip(x["recv"])
            while r.get("k") == "MethodCall":
                chain.append(r.get("name"))
                r = F.strip(r["recv"])
            shifting = [m for m in chain if m in _SHIFTING]
            # the binding of the index: first component of the tuple pattern of the consuming closure / for loop
            idx_ids = set()
            scope = None
            for p in reversed(parents):
                if p.get("k") == "MethodCall" and p.get("args"):
                    for a in p["args"]:
                        a = F.strip(a)
                        if a.get("k") == "Closure" and a.get("params"):
                            pat = a["params"][0]
                            if pat.get("k") == "Tuple" and pat.get("pats") and pat["pats"][0].get("k") == "Bind":
                                idx_ids.add(pat["pats"][0]["id"])
                                scope = a["body"]
                    if idx_ids:
                        break
            if scope is None:
                # `for (i, x) in <chain>.enumerate()`: the desugared match arm binds Some((i, x))
                for p in reversed(parents):
                    if p.get("k") == "Match" and p.get("src") == "ForLoopDesugar":
                        break
                for y, _ in F.walk(b["hir"]):
                    if y.get("k") == "Loop" and y.get("src") == "ForLoop":
                        for z, zp in F.walk(y):
                            if z.get("k") == "Tuple" and z.get("pats") and z["pats"][0].get("k") == "Bind" and \
                                    (z.get("ty") or "").startswith("(usize,"):
                                idx_ids.add(z["pats"][0]["id"])
                                scope = y
            if scope is None or not idx_ids:
                continue
            direct = None
            for y, yp in F.walk(scope):
                if y.get("k") == "Path" and y.get("res", {}).get("local") in idx_ids:
                    anc = [a for a in yp if isinstance(a, dict) and a.get("k")]
                    if any(a.get("k") == "Binary" and a.get("op") in ("Add", "Sub") for a in anc) or \
                            any(a.get("k") == "AssignOp" for a in anc):
                        continue
                    for a in reversed(anc):
                        k = a.get("k")
                        if k in ("Cast", "DropTemps", "Use", "Unary", "AddrOf"):
                            continue
                        if k == "Call" and (a.get("ty") or "").endswith("Idx"):
                            direct = a
                        elif k == "Index":
                            direct = a
                        elif k == "MethodCall" and a.get("name") in ("get", "get_mut", "get_unchecked", "insert", "remove", "split_at"):
                            direct = a
                        break
                if direct:
                    break
            if direct is None:
                continue
            n += 1
            key = "%s|enumerate" % fname
            ok = not shifting
            cx.ob(rule, key, ok, F.file_line(F.site(x)),
                  "the index handed out by enumerate() counts the container from its first element (chain: %s)" % list(reversed(chain)) if ok else
                  "%s turns the enumerate() index into a container position unadjusted, but the chain drops / reorders elements "
                  "before the enumeration (%s in %s): every position is off by the number of dropped elements"
                  % (fname, shifting, list(reversed(chain))))
    cx.count(rule, "sites", n)
