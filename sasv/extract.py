"""Fact extraction orchestration (engine E0 driver side).

Copies /repo's *working tree* to a scratch directory outside /repo and /verif,
runs `cargo +nightly check --offline` under the `sasfacts` RUSTC_WRAPPER once
per configuration, collects the JSON fact files into
/verif/.cache/<tree-hash>/ and removes the scratch directory (with its build
output).  Every check calls `ensure_facts()` first; the hash is recomputed from
the current working tree each time, so an edited tree is always re-extracted.
"""
import fcntl
import hashlib
import json
import os
import re
import shutil
import subprocess
import sys
import tempfile
import time

VERIF = os.path.dirname(os.path.dirname(os.path.abspath(__file__)))
REPO = os.environ.get("SASV_REPO", "/repo")
CACHE = os.path.join(VERIF, ".cache")
DRIVER = os.path.join(VERIF, "driver", "target", "release", "sasfacts")

# tag -> (profile, features, drop rustc_nightly cfg)
CONFIGS = {
    "dev-none-stable": ("dev", "", True),
    "dev-msep-stable": ("dev", "macro_sep", True),
    "dev-all-stable": ("dev", "macro_sep,opti_stats,serde", True),
    "dev-none-nightly": ("dev", "", False),
    "rel-none-stable": ("release", "", True),
    "rel-msep-stable": ("release", "macro_sep", True),
    "rel-all-stable": ("release", "macro_sep,opti_stats,serde", True),
    "rel-none-nightly": ("release", "", False),
}
PY_TAG = "py"

HASH_INPUT_DIRS = ["crates", "src/sas_lexer"]
HASH_INPUT_FILES = ["Cargo.toml", "Cargo.lock", "pyproject.toml"]
SKIP_DIR_NAMES = {"target", ".git", "__pycache__", "snapshots", "benches"}


def _iter_input_files():
    for f in HASH_INPUT_FILES:
        p = os.path.join(REPO, f)
        if os.path.isfile(p):
            yield f, p
    for d in HASH_INPUT_DIRS:
        base = os.path.join(REPO, d)
        for root, dirs, files in os.walk(base):
            dirs[:] = sorted(x for x in dirs if x not in SKIP_DIR_NAMES)
            for fn in sorted(files):
                if fn.endswith((".snap", ".zip", ".pyc", ".sas")):
                    continue
                p = os.path.join(root, fn)
                yield os.path.relpath(p, REPO), p


def tree_hash():
    h = hashlib.sha256()
    # the driver and the extractor are part of the key: new extractor => new facts
    for p in (os.path.join(VERIF, "driver", "src", "main.rs"), os.path.abspath(__file__)):
        with open(p, "rb") as f:
            h.update(hashlib.sha256(f.read()).digest())
    for rel, p in _iter_input_files():
        h.update(rel.encode())
        with open(p, "rb") as f:
            h.update(hashlib.sha256(f.read()).digest())
    return h.hexdigest()[:24]


def _sysroot_lib():
    out = subprocess.run(["rustc", "+nightly", "--print", "sysroot"], capture_output=True, text=True, check=True)
    return os.path.join(out.stdout.strip(), "lib")


def ensure_driver():
    src = os.path.join(VERIF, "driver", "src", "main.rs")
    if os.path.exists(DRIVER) and os.path.getmtime(DRIVER) >= os.path.getmtime(src):
        return
    env = dict(os.environ, CARGO_NET_OFFLINE="true")
    r = subprocess.run(["cargo", "+nightly", "build", "--release", "--offline"],
                       cwd=os.path.join(VERIF, "driver"), env=env, capture_output=True, text=True)
    if r.returncode != 0:
        sys.stderr.write(r.stdout + r.stderr)
        raise SystemExit("BROKEN-CHECK: cannot build the sasfacts driver")


def _run_lane(scratch, outdir, lane, tags, log):
    """Run the configurations of one profile sequentially in one target dir."""
    tgt = os.path.join(scratch, "tgt-" + lane)
    env = dict(os.environ)
    env.update({
        "LD_LIBRARY_PATH": _sysroot_lib() + ":" + env.get("LD_LIBRARY_PATH", ""),
        "RUSTFLAGS": "-Zmir-opt-level=0 -Awarnings",
        "RUSTC_WRAPPER": DRIVER,
        "CARGO_TARGET_DIR": tgt,
        "CARGO_NET_OFFLINE": "true",
        "SASFACTS_OUT": outdir,
        "CARGO_TERM_COLOR": "never",
    })
    env.pop("RUSTC_WORKSPACE_WRAPPER", None)
    procs = []
    for tag in tags:
        if tag == PY_TAG:
            profile, feats, drop, pkg = "dev", None, False, "sas-lexer-py"
        else:
            profile, feats, drop = CONFIGS[tag]
            pkg = "sas-lexer"
        e = dict(env, SASFACTS_TAG=tag)
        if drop:
            e["SASFACTS_DROP_CFG"] = "rustc_nightly"
        # cargo's freshness cache would silently skip the wrapper: drop the member fingerprints
        for prof_dir in ("debug", "release"):
            fp = os.path.join(tgt, prof_dir, ".fingerprint")
            if os.path.isdir(fp):
                for n in os.listdir(fp):
                    if re.match(r"sas-lexer-(py-)?[0-9a-f]{16}$", n):
                        shutil.rmtree(os.path.join(fp, n), ignore_errors=True)
        cmd = ["cargo", "+nightly", "check", "--offline", "-p", pkg]
        if profile == "release":
            cmd.append("--release")
        if feats:
            cmd += ["--features", feats]
        t0 = time.time()
        r = subprocess.run(cmd, cwd=os.path.join(scratch, "repo"), env=e, capture_output=True, text=True)
        log.append({"tag": tag, "cmd": " ".join(cmd), "rc": r.returncode, "wall_s": round(time.time() - t0, 2)})
        if r.returncode != 0:
            log[-1]["stderr_tail"] = r.stderr[-3000:]
    return procs


def ensure_facts(tags=None, want_py=True, verbose=False):
    """Return (cache_dir, tree_hash). Extract what is missing."""
    tags = list(tags or CONFIGS.keys())
    if want_py and PY_TAG not in tags:
        tags.append(PY_TAG)
    h = tree_hash()
    cdir = os.path.join(CACHE, h)
    os.makedirs(cdir, exist_ok=True)
    # one lock per tree: different trees (self-test variants) extract concurrently
    lock = open(os.path.join(CACHE, ".lock-" + h), "w")
    fcntl.flock(lock, fcntl.LOCK_EX)
    try:
        try:
            os.utime(cdir, None)
        except OSError:
            pass
        def have(tag):
            if tag == PY_TAG:
                return (os.path.exists(os.path.join(cdir, "_sas_lexer_rust-py.json"))
                        and os.path.exists(os.path.join(cdir, "sas_lexer-py.json"))
                        and os.path.exists(os.path.join(cdir, "py_regen.json")))
            return os.path.exists(os.path.join(cdir, "sas_lexer-%s.json" % tag))
        missing = [t for t in tags if not have(t)]
        failed_marker = os.path.join(cdir, "extract_failed.json")
        if missing and os.path.exists(failed_marker):
            # a previous attempt on this very tree failed: report the same failure
            return cdir, h
        if not missing:
            return cdir, h
        ensure_driver()
        t0 = time.time()
        scratch = tempfile.mkdtemp(prefix="sasv-extract-", dir=os.environ.get("SASV_SCRATCH", "/tmp"))
        try:
            subprocess.run(["rsync", "-a", "--exclude", "target", "--exclude", ".git", "--exclude", ".venv",
                            REPO.rstrip("/") + "/", os.path.join(scratch, "repo") + "/"], check=True)
            outdir = os.path.join(scratch, "out")
            os.makedirs(outdir)
            lanes = {"dev": [], "release": [], "py": []}
            for t in missing:
                if t == PY_TAG:
                    lanes["py"].append(t)
                else:
                    lanes[CONFIGS[t][0]].append(t)
            import threading
            logs = {k: [] for k in lanes}
            threads = []
            for lane, ts in lanes.items():
                if ts:
                    th = threading.Thread(target=_run_lane, args=(scratch, outdir, lane, ts, logs[lane]))
                    th.start()
                    threads.append(th)
            for th in threads:
                th.join()
            log = [x for k in logs for x in logs[k]]
            ok = True
            for t in missing:
                names = ["_sas_lexer_rust-py.json", "sas_lexer-py.json"] if t == PY_TAG else ["sas_lexer-%s.json" % t]
                for n in names:
                    src = os.path.join(outdir, n)
                    if os.path.exists(src):
                        shutil.move(src, os.path.join(cdir, n))
                    else:
                        ok = False
            if PY_TAG in missing:
                # regeneration cross-check: sas-lexer-py's build.rs rewrote the python enum modules
                # in the scratch copy; compare with /repo's
                regen = {}
                for n in ("token_type.py", "token_channel.py", "error_kind.py"):
                    a = os.path.join(scratch, "repo", "src", "sas_lexer", n)
                    b = os.path.join(REPO, "src", "sas_lexer", n)
                    try:
                        regen[n] = open(a, "rb").read() == open(b, "rb").read()
                    except OSError as ex:
                        regen[n] = "missing: %s" % ex
                with open(os.path.join(cdir, "py_regen.json"), "w") as f:
                    json.dump(regen, f)
            with open(os.path.join(cdir, "extract_log.json"), "w") as f:
                json.dump({"wall_s": round(time.time() - t0, 2), "runs": log}, f, indent=1)
            if not ok:
                with open(failed_marker, "w") as f:
                    json.dump({"runs": log}, f, indent=1)
        finally:
            shutil.rmtree(scratch, ignore_errors=True)
        # keep the cache small: drop other trees' facts (keep the 12 most recently used, never one in use)
        try:
            ents = [os.path.join(CACHE, d) for d in os.listdir(CACHE) if os.path.isdir(os.path.join(CACHE, d))]
            ents.sort(key=os.path.getmtime, reverse=True)
            for old in ents[12:]:
                if time.time() - os.path.getmtime(old) < 3600:
                    continue
                lk = os.path.join(CACHE, ".lock-" + os.path.basename(old))
                try:
                    with open(lk, "w") as lf:
                        fcntl.flock(lf, fcntl.LOCK_EX | fcntl.LOCK_NB)
                        shutil.rmtree(old, ignore_errors=True)
                        fcntl.flock(lf, fcntl.LOCK_UN)
                    os.remove(lk)
                except OSError:
                    pass
        except OSError:
            pass
        return cdir, h
    finally:
        fcntl.flock(lock, fcntl.LOCK_UN)
        lock.close()


if __name__ == "__main__":
    d, h = ensure_facts()
    print(d, h)
    print(open(os.path.join(d, "extract_log.json")).read()[:3000])
