//! sasfacts — fact extractor (engine E0 of /verif/DESIGN.md).
//!
//! A `rustc_driver` callback that, after analysis, dumps for the crates of
//! interest: the type-checked HIR of every body as a small generic JSON AST
//! (resolved callees, constants, patterns), MIR facts (assert terminators,
//! resolved call edges), ADT facts (fields, variants, discriminants, attrs,
//! trait impls) and the static/unsafe inventory.
//!
//! Used as RUSTC_WRAPPER: argv[1] is the real rustc path and is dropped.
//! Environment:
//!   SASFACTS_OUT     directory to write `<crate>-<tag>.json` into (required to dump)
//!   SASFACTS_TAG     configuration tag recorded in the file name and the file
//!   SASFACTS_CRATES  comma separated crate names to dump (default: sas_lexer,_sas_lexer_rust)
//!   SASFACTS_DROP_CFG  comma separated cfg names whose `--cfg NAME` argument pair is dropped
#![feature(rustc_private)]
#![allow(clippy::all)]

extern crate rustc_abi;
extern crate rustc_ast;
extern crate rustc_ast_pretty;
extern crate rustc_driver;
extern crate rustc_hir;
extern crate rustc_interface;
extern crate rustc_middle;
extern crate rustc_span;

mod json;

use json::J;
use rustc_hir as hir;
use rustc_hir::def::{DefKind, Res};
use rustc_hir::def_id::{DefId, LocalDefId};
use rustc_middle::mir;
use rustc_middle::ty::{self, Ty, TyCtxt, TypeVisitableExt, TypeckResults};
use rustc_span::Span;
use std::collections::BTreeMap;

struct NoCb;
impl rustc_driver::Callbacks for NoCb {}

struct Cb {
    out: String,
    tag: String,
    crate_name: String,
}

impl rustc_driver::Callbacks for Cb {
    fn after_analysis<'tcx>(
        &mut self,
        _compiler: &rustc_interface::interface::Compiler,
        tcx: TyCtxt<'tcx>,
    ) -> rustc_driver::Compilation {
        let j = rustc_middle::ty::print::with_no_trimmed_paths!(dump_crate(tcx, &self.tag));
        let mut s = String::with_capacity(1 << 22);
        j.write(&mut s);
        let path = format!("{}/{}-{}.json", self.out, self.crate_name, self.tag);
        // one write per process
        std::fs::write(&path, s).expect("sasfacts: cannot write fact file");
        rustc_driver::Compilation::Continue
    }
}

fn main() {
    let mut args: Vec<String> = std::env::args().collect();
    if args.len() > 1 && (args[1].ends_with("rustc") || args[1].contains("/rustc")) {
        args.remove(1);
    }
    let drop_cfg: Vec<String> = std::env::var("SASFACTS_DROP_CFG")
        .unwrap_or_default()
        .split(',')
        .filter(|s| !s.is_empty())
        .map(|s| s.to_string())
        .collect();
    if !drop_cfg.is_empty() {
        let mut i = 0;
        while i + 1 < args.len() {
            if args[i] == "--cfg" && drop_cfg.iter().any(|c| *c == args[i + 1]) {
                args.drain(i..i + 2);
            } else {
                i += 1;
            }
        }
    }
    let mut crate_name = String::new();
    for i in 0..args.len() {
        if args[i] == "--crate-name" && i + 1 < args.len() {
            crate_name = args[i + 1].clone();
        }
    }
    let crates = std::env::var("SASFACTS_CRATES")
        .unwrap_or_else(|_| "sas_lexer,_sas_lexer_rust".to_string());
    let out = std::env::var("SASFACTS_OUT").unwrap_or_default();
    let wanted = !out.is_empty()
        && !crate_name.is_empty()
        && crates.split(',').any(|c| c == crate_name)
        // never for build scripts / proc-macro probes
        && !args.iter().any(|a| a == "--print" || a.starts_with("--print="))
        // never for test harness builds
        && !args.iter().any(|a| a == "--test");
    if wanted {
        let tag = std::env::var("SASFACTS_TAG").unwrap_or_else(|_| "default".to_string());
        let mut cb = Cb { out, tag, crate_name };
        rustc_driver::run_compiler(&args, &mut cb);
    } else {
        rustc_driver::run_compiler(&args, &mut NoCb);
    }
}

// ---------------------------------------------------------------------------

fn loc(tcx: TyCtxt<'_>, sp: Span) -> String {
    let sp = if sp.from_expansion() { sp.source_callsite() } else { sp };
    let sm = tcx.sess.source_map();
    let l = sm.lookup_char_pos(sp.lo());
    let name = match &l.file.name {
        rustc_span::FileName::Real(r) => match r.local_path() {
            Some(p) => p.to_string_lossy().to_string(),
            None => format!("{:?}", l.file.name),
        },
        other => format!("{:?}", other),
    };
    format!("{}:{}:{}", name, l.line, l.col.0 + 1)
}

fn mac_name(sp: Span) -> Option<String> {
    if !sp.from_expansion() {
        return None;
    }
    // chain of macro names, innermost first
    let mut names = Vec::new();
    let mut cur = sp;
    let mut guard = 0;
    while cur.from_expansion() && guard < 8 {
        let d = cur.ctxt().outer_expn_data();
        match d.kind {
            rustc_span::hygiene::ExpnKind::Macro(_, name) => names.push(name.to_string()),
            rustc_span::hygiene::ExpnKind::Desugaring(k) => names.push(format!("desugar:{:?}", k)),
            rustc_span::hygiene::ExpnKind::AstPass(k) => names.push(format!("astpass:{:?}", k)),
            rustc_span::hygiene::ExpnKind::Root => {}
        }
        cur = d.call_site;
        guard += 1;
    }
    Some(names.join("<"))
}

fn dump_crate<'tcx>(tcx: TyCtxt<'tcx>, tag: &str) -> J {
    let mut bodies: Vec<(String, J)> = Vec::new();
    let mut ext_adts: BTreeMap<String, J> = BTreeMap::new();

    for ldid in tcx.hir_body_owners() {
        let dk = tcx.def_kind(ldid);
        if matches!(dk, DefKind::Closure | DefKind::InlineConst | DefKind::AnonConst) {
            continue;
        }
        let path = tcx.def_path_str(ldid.to_def_id());
        let tr = tcx.typeck(ldid);
        let body = tcx.hir_body_owned_by(ldid);
        let ser = Ser { tcx, tr, owner: ldid, ext: std::cell::RefCell::new(BTreeMap::new()) };
        let params: Vec<J> = body.params.iter().map(|p| ser.pat(p.pat)).collect();
        let hirj = ser.expr(body.value);
        let mut o: Vec<(&'static str, J)> = vec![
            ("kind", J::s(format!("{:?}", dk))),
            ("span", J::s(loc(tcx, tcx.def_span(ldid.to_def_id())))),
            ("params", J::Arr(params)),
            ("hir", hirj),
        ];
        if matches!(dk, DefKind::Fn | DefKind::AssocFn) {
            o.push(("vis", J::s(format!("{:?}", tcx.visibility(ldid.to_def_id())))));
            let sig = tcx.fn_sig(ldid.to_def_id()).instantiate_identity().skip_binder();
            o.push(("ret", J::s(sig.output().to_string())));
            o.push(("inputs", J::Arr(sig.inputs().iter().map(|t| J::s(t.to_string())).collect())));
            o.push(("mir", mir_facts(tcx, ldid)));
            // closures nested in this fn: their MIR facts too
        }
        for (k, v) in ser.ext.into_inner() {
            ext_adts.entry(k).or_insert(v);
        }
        // methods of impls inside anonymous consts (derive output) share one def path: record the impl's
        // self type and make the key unique
        let mut path = path;
        if matches!(dk, DefKind::AssocFn | DefKind::AssocConst { .. }) {
            let parent = tcx.parent(ldid.to_def_id());
            if matches!(tcx.def_kind(parent), DefKind::Impl { .. }) {
                let st = tcx.type_of(parent).instantiate_identity().skip_norm_wip();
                o.push(("impl_self", J::s(st.to_string())));
                if bodies.iter().any(|(p, _)| *p == path) || path.contains("::_::") {
                    path = format!("<{} as {}>::{}", st, path.rsplit_once("::").map(|x| x.0).unwrap_or(""), tcx.item_name(ldid.to_def_id()));
                }
            }
        }
        bodies.push((path, J::Obj(o)));
    }
    // closure MIR facts, keyed by closure def path
    let mut closure_mir: Vec<(String, J)> = Vec::new();
    for ldid in tcx.hir_body_owners() {
        if matches!(tcx.def_kind(ldid), DefKind::Closure) {
            let path = tcx.def_path_str(ldid.to_def_id());
            let sp = loc(tcx, tcx.def_span(ldid.to_def_id()));
            closure_mir.push((format!("{}@{}", path, sp), mir_facts(tcx, ldid)));
        }
    }

    // ADTs, statics, impls
    let mut adts: Vec<(String, J)> = Vec::new();
    let mut statics: Vec<J> = Vec::new();
    let mut impls: Vec<J> = Vec::new();
    let mut consts: Vec<J> = Vec::new();
    for ldid in tcx.hir_crate_items(()).definitions() {
        let did = ldid.to_def_id();
        match tcx.def_kind(ldid) {
            DefKind::Struct | DefKind::Enum | DefKind::Union => {
                adts.push((tcx.def_path_str(did), adt_facts(tcx, did, true)));
            }
            DefKind::Static { mutability, nested, .. } => {
                let ty = tcx.type_of(did).instantiate_identity().skip_norm_wip();
                let freeze = ty.is_freeze(tcx, ty::TypingEnv::fully_monomorphized());
                statics.push(J::Obj(vec![
                    ("path", J::s(tcx.def_path_str(did))),
                    ("mutable", J::Bool(matches!(mutability, hir::Mutability::Mut))),
                    ("nested", J::Bool(nested)),
                    ("ty", J::s(ty.to_string())),
                    ("interior_mut", J::Bool(!freeze)),
                    ("span", J::s(loc(tcx, tcx.def_span(did)))),
                ]));
            }
            DefKind::Const { .. } | DefKind::AssocConst { .. } => {
                let ty = tcx.type_of(did).instantiate_identity().skip_norm_wip();
                consts.push(J::Obj(vec![
                    ("path", J::s(tcx.def_path_str(did))),
                    ("ty", J::s(ty.to_string())),
                    ("span", J::s(loc(tcx, tcx.def_span(did)))),
                ]));
            }
            DefKind::Impl { of_trait: true } => {
                let tref = tcx.impl_trait_ref(did).instantiate_identity().skip_norm_wip();
                impls.push(J::Obj(vec![
                    ("trait", J::s(tcx.def_path_str(tref.def_id))),
                    ("self_ty", J::s(tref.self_ty().to_string())),
                    ("exp", J::Bool(tcx.def_span(did).from_expansion())),
                    ("span", J::s(loc(tcx, tcx.def_span(did)))),
                ]));
            }
            _ => {}
        }
    }

    let sess = tcx.sess;
    let mut cfgs: Vec<J> = Vec::new();
    for (name, val) in sess.config.iter() {
        let n = name.to_string();
        if n == "feature" || n == "debug_assertions" || n == "rustc_nightly" || n == "test" || n == "overflow_checks" {
            cfgs.push(J::s(match val {
                Some(v) => format!("{}={}", n, v),
                None => n,
            }));
        }
    }
    J::Obj(vec![
        ("crate", J::s(tcx.crate_name(rustc_hir::def_id::LOCAL_CRATE).to_string())),
        ("tag", J::s(tag)),
        ("cfg", J::Arr(cfgs)),
        ("debug_assertions", J::Bool(sess.opts.debug_assertions)),
        ("overflow_checks", J::Bool(sess.overflow_checks())),
        ("src_root", J::s(loc(tcx, tcx.def_span(rustc_hir::def_id::CRATE_DEF_ID.to_def_id())))),
        ("bodies", J::Map(bodies)),
        ("closure_mir", J::Map(closure_mir)),
        ("adts", J::Map(adts)),
        ("ext_adts", J::Map(ext_adts.into_iter().collect())),
        ("statics", J::Arr(statics)),
        ("consts", J::Arr(consts)),
        ("impls", J::Arr(impls)),
    ])
}

fn attrs_json<'tcx>(tcx: TyCtxt<'tcx>, did: DefId) -> J {
    let mut v = Vec::new();
    if let Some(l) = did.as_local() {
        let hid = tcx.local_def_id_to_hir_id(l);
        for a in tcx.hir_attrs(hid) {
            match a {
                hir::Attribute::Unparsed(item) => {
                    let p: Vec<String> =
                        item.path.segments.iter().map(|s| s.to_string()).collect();
                    let args = match &item.args {
                        hir::AttrArgs::Empty => String::new(),
                        hir::AttrArgs::Delimited(d) => {
                            rustc_ast_pretty::pprust::tts_to_string(&d.tokens)
                        }
                        hir::AttrArgs::Eq { expr, .. } => format!("= {}", expr.symbol),
                    };
                    v.push(J::s(format!("{}({})", p.join("::"), args)));
                }
                hir::Attribute::Parsed(k) => {
                    let d = format!("{:?}", k);
                    let short: String = d.chars().take(120).collect();
                    v.push(J::s(format!("parsed:{}", short)));
                }
            }
        }
    }
    J::Arr(v)
}

fn adt_facts<'tcx>(tcx: TyCtxt<'tcx>, did: DefId, with_attrs: bool) -> J {
    let adt = tcx.adt_def(did);
    let mut variants = Vec::new();
    let discrs: Vec<(rustc_abi::VariantIdx, ty::util::Discr<'tcx>)> =
        if adt.is_enum() { adt.discriminants(tcx).collect() } else { Vec::new() };
    for (vidx, v) in adt.variants().iter_enumerated() {
        let fields: Vec<J> = v
            .fields
            .iter()
            .map(|f| {
                let fty = tcx.type_of(f.did).instantiate_identity().skip_norm_wip();
                J::Obj(vec![
                    ("name", J::s(f.name.to_string())),
                    ("ty", J::s(fty.to_string())),
                    ("vis", J::s(format!("{:?}", f.vis))),
                ])
            })
            .collect();
        let discr = discrs.iter().find(|(i, _)| *i == vidx).map(|(_, d)| J::Int(d.val as i128));
        variants.push(J::Obj(vec![
            ("name", J::s(v.name.to_string())),
            ("discr", J::opt(discr)),
            ("ctor", J::s(format!("{:?}", v.ctor_kind()))),
            ("fields", J::Arr(fields)),
        ]));
    }
    let mut o = vec![
        ("kind", J::s(if adt.is_enum() { "enum" } else if adt.is_union() { "union" } else { "struct" })),
        ("repr", J::s(format!("{:?}", adt.repr()))),
        ("vis", J::s(format!("{:?}", tcx.visibility(did)))),
        ("krate", J::s(tcx.crate_name(did.krate).to_string())),
        ("variants", J::Arr(variants)),
        ("span", J::s(loc(tcx, tcx.def_span(did)))),
    ];
    if with_attrs {
        o.push(("attrs", attrs_json(tcx, did)));
    }
    J::Obj(o)
}

// ---------------------------------------------------------------------------
// MIR facts

fn mir_facts<'tcx>(tcx: TyCtxt<'tcx>, ldid: LocalDefId) -> J {
    let did = ldid.to_def_id();
    if !tcx.is_mir_available(did) {
        return J::Null;
    }
    let body: &mir::Body<'tcx> = tcx.optimized_mir(did);
    let mut asserts = Vec::new();
    let mut calls = Vec::new();
    let tenv = ty::TypingEnv::post_analysis(tcx, did);
    for (_bb, data) in body.basic_blocks.iter_enumerated() {
        let Some(term) = &data.terminator else { continue };
        let sp = term.source_info.span;
        match &term.kind {
            mir::TerminatorKind::Assert { msg, .. } => {
                let kind = match &**msg {
                    mir::AssertKind::BoundsCheck { .. } => "BoundsCheck".to_string(),
                    mir::AssertKind::Overflow(op, ..) => format!("Overflow({:?})", op),
                    mir::AssertKind::OverflowNeg(..) => "OverflowNeg".to_string(),
                    mir::AssertKind::DivisionByZero(..) => "DivisionByZero".to_string(),
                    mir::AssertKind::RemainderByZero(..) => "RemainderByZero".to_string(),
                    other => {
                        let d = format!("{:?}", other);
                        d.split(|c| c == '(' || c == '{' || c == ' ').next().unwrap_or("").to_string()
                    }
                };
                asserts.push(J::Obj(vec![
                    ("kind", J::s(kind)),
                    ("sp", J::s(loc(tcx, sp))),
                    ("exp", J::Bool(sp.from_expansion())),
                    ("mac", J::opt(mac_name(sp).map(J::s))),
                ]));
            }
            mir::TerminatorKind::Call { func, .. } | mir::TerminatorKind::TailCall { func, .. } => {
                if let Some((cdid, cargs)) = func.const_fn_def() {
                    let plain = tcx.def_path_str(cdid);
                    let full = tcx.def_path_str_with_args(cdid, cargs);
                    let mut inst_path = None;
                    if let Ok(Some(inst)) = ty::Instance::try_resolve(tcx, tenv, cdid, cargs) {
                        let idid = inst.def_id();
                        if idid != cdid {
                            inst_path = Some(tcx.def_path_str(idid));
                        }
                    }
                    calls.push(J::Obj(vec![
                        ("callee", J::s(plain)),
                        ("full", J::s(full)),
                        ("inst", J::opt(inst_path.map(J::s))),
                        ("sp", J::s(loc(tcx, sp))),
                        ("exp", J::Bool(sp.from_expansion())),
                        ("mac", J::opt(mac_name(sp).map(J::s))),
                    ]));
                } else {
                    calls.push(J::Obj(vec![
                        ("callee", J::s("<indirect>")),
                        ("sp", J::s(loc(tcx, sp))),
                        ("exp", J::Bool(sp.from_expansion())),
                    ]));
                }
            }
            _ => {}
        }
    }
    J::Obj(vec![
        ("blocks", J::Int(body.basic_blocks.len() as i128)),
        ("asserts", J::Arr(asserts)),
        ("calls", J::Arr(calls)),
    ])
}

// ---------------------------------------------------------------------------
// HIR serializer

struct Ser<'tcx> {
    tcx: TyCtxt<'tcx>,
    tr: &'tcx TypeckResults<'tcx>,
    owner: LocalDefId,
    ext: std::cell::RefCell<BTreeMap<String, J>>,
}

impl<'tcx> Ser<'tcx> {
    fn lid(&self, h: hir::HirId) -> J {
        // locals are unique within one body owner (closures share the owner)
        J::Int(h.local_id.as_u32() as i128)
    }

    fn res(&self, res: Res) -> J {
        match res {
            Res::Local(h) => J::Obj(vec![
                ("local", self.lid(h)),
                ("name", J::s(self.tcx.hir_name(h).to_string())),
            ]),
            Res::Def(kind, did) => J::Obj(vec![
                ("def", J::s(self.tcx.def_path_str(did))),
                ("dk", J::s(format!("{:?}", kind))),
            ]),
            Res::SelfCtor(did) | Res::SelfTyAlias { alias_to: did, .. } => J::Obj(vec![
                ("def", J::s(self.tcx.def_path_str(did))),
                ("dk", J::s("SelfCtor")),
            ]),
            Res::PrimTy(p) => J::Obj(vec![("prim", J::s(format!("{:?}", p)))]),
            other => J::Obj(vec![("other", J::s(format!("{:?}", other)))]),
        }
    }

    fn lit(&self, l: &hir::Lit, neg: bool) -> Vec<(&'static str, J)> {
        use rustc_ast::LitKind;
        match &l.node {
            LitKind::Str(s, _) => vec![("lt", J::s("str")), ("v", J::s(s.to_string()))],
            LitKind::ByteStr(b, _) | LitKind::CStr(b, _) => vec![
                ("lt", J::s("bytes")),
                ("v", J::Arr(b.as_byte_str().iter().map(|x| J::Int(*x as i128)).collect())),
            ],
            LitKind::Byte(b) => vec![("lt", J::s("byte")), ("v", J::Int(*b as i128))],
            LitKind::Char(c) => vec![("lt", J::s("char")), ("v", J::s(c.to_string()))],
            LitKind::Int(i, _) => {
                let v = i.get() as i128;
                vec![("lt", J::s("int")), ("v", J::Int(if neg { -v } else { v }))]
            }
            LitKind::Float(s, _) => vec![("lt", J::s("float")), ("v", J::s(s.to_string()))],
            LitKind::Bool(b) => vec![("lt", J::s("bool")), ("v", J::Bool(*b))],
            LitKind::Err(_) => vec![("lt", J::s("err"))],
        }
    }

    fn ty_note(&self, t: Ty<'tcx>) {
        // remember non-local ADTs of interest (crate sas_lexer*) reachable from a type
        let mut stack = vec![t];
        let mut seen = 0;
        while let Some(t) = stack.pop() {
            seen += 1;
            if seen > 200 {
                break;
            }
            match t.kind() {
                ty::Adt(def, args) => {
                    let did = def.did();
                    let kn = self.tcx.crate_name(did.krate).to_string();
                    if !did.is_local() && kn.starts_with("sas_lexer") {
                        let p = self.tcx.def_path_str(did);
                        if !self.ext.borrow().contains_key(&p) {
                            self.ext.borrow_mut().insert(p, adt_facts(self.tcx, did, false));
                            for v in def.variants() {
                                for f in &v.fields {
                                    stack.push(self.tcx.type_of(f.did).instantiate_identity().skip_norm_wip());
                                }
                            }
                        }
                    }
                    for a in args.iter() {
                        if let Some(t) = a.as_type() {
                            stack.push(t);
                        }
                    }
                }
                ty::Tuple(ts) => {
                    for t in ts.iter() {
                        stack.push(t);
                    }
                }
                ty::Ref(_, t, _) | ty::Slice(t) | ty::Array(t, _) => stack.push(*t),
                _ => {}
            }
        }
    }

    fn callee_info(&self, did: DefId, args: ty::GenericArgsRef<'tcx>) -> Vec<(&'static str, J)> {
        let tcx = self.tcx;
        let mut o = vec![("def", J::s(tcx.def_path_str(did)))];
        o.push(("full", J::s(tcx.def_path_str_with_args(did, args))));
        let tenv = ty::TypingEnv::post_analysis(tcx, self.owner.to_def_id());
        // only attempt resolution on fully concrete args
        let concrete = !args.iter().any(|a| {
            a.as_type().map_or(false, |t| t.has_param() || t.has_infer())
        });
        if concrete {
            if let Ok(Some(inst)) = ty::Instance::try_resolve(tcx, tenv, did, args) {
                let idid = inst.def_id();
                if idid != did {
                    o.push(("inst", J::s(tcx.def_path_str(idid))));
                }
            }
        }
        o
    }

    fn block(&self, b: &'tcx hir::Block<'tcx>) -> J {
        let mut stmts = Vec::new();
        for s in b.stmts {
            match s.kind {
                hir::StmtKind::Let(l) => {
                    let mut o: Vec<(&'static str, J)> = vec![
                        ("k", J::s("Let")),
                        ("pat", self.pat(l.pat)),
                        ("init", J::opt(l.init.map(|e| self.expr(e)))),
                        ("els", J::opt(l.els.map(|b| self.block(b)))),
                        ("sp", J::s(loc(self.tcx, s.span))),
                    ];
                    if s.span.from_expansion() {
                        o.push(("exp", J::Bool(true)));
                        o.push(("mac", J::opt(mac_name(s.span).map(J::s))));
                    }
                    stmts.push(J::Obj(o));
                }
                hir::StmtKind::Item(_) => {
                    stmts.push(J::Obj(vec![("k", J::s("Item"))]));
                }
                hir::StmtKind::Expr(e) => {
                    stmts.push(J::Obj(vec![("k", J::s("Expr")), ("e", self.expr(e))]));
                }
                hir::StmtKind::Semi(e) => {
                    stmts.push(J::Obj(vec![("k", J::s("Semi")), ("e", self.expr(e))]));
                }
            }
        }
        let mut o: Vec<(&'static str, J)> = vec![
            ("k", J::s("Block")),
            ("stmts", J::Arr(stmts)),
            ("expr", J::opt(b.expr.map(|e| self.expr(e)))),
        ];
        if matches!(b.rules, hir::BlockCheckMode::UnsafeBlock(_)) {
            o.push(("unsafe", J::Bool(true)));
            o.push(("sp", J::s(loc(self.tcx, b.span))));
            if b.span.from_expansion() {
                o.push(("exp", J::Bool(true)));
            }
        }
        if let Some(l) = b.targeted_by_break.then_some(()) {
            let _ = l;
            o.push(("brk", J::Bool(true)));
        }
        J::Obj(o)
    }

    fn qpath_str(&self, q: &hir::QPath<'tcx>) -> String {
        rustc_hir_pretty_qpath(q)
    }

    fn expr(&self, e: &'tcx hir::Expr<'tcx>) -> J {
        let tcx = self.tcx;
        let mut o: Vec<(&'static str, J)> = Vec::new();
        let kind: &'static str = match e.kind {
            hir::ExprKind::ConstBlock(cb) => {
                let body = tcx.hir_body(cb.body);
                o.push(("body", self.expr(body.value)));
                "ConstBlock"
            }
            hir::ExprKind::Array(es) => {
                o.push(("elems", J::Arr(es.iter().map(|x| self.expr(x)).collect())));
                "Array"
            }
            hir::ExprKind::Call(f, args) => {
                // resolved callee when the callee expression is a path to a fn / ctor,
                // or a local holding a closure
                let fty = self.tr.expr_ty(f);
                match fty.kind() {
                    ty::FnDef(did, gargs) => {
                        for kv in self.callee_info(*did, gargs) {
                            o.push(kv);
                        }
                        // is it a tuple-struct / variant constructor?
                        let dk = tcx.def_kind(*did);
                        if matches!(dk, DefKind::Ctor(..)) {
                            o.push(("ctor", J::Bool(true)));
                        }
                    }
                    ty::Closure(did, _) => {
                        o.push(("closure", J::s(tcx.def_path_str(*did))));
                        o.push(("closure_sp", J::s(loc(tcx, tcx.def_span(*did)))));
                    }
                    _ => {}
                }
                o.push(("f", self.expr(f)));
                o.push(("args", J::Arr(args.iter().map(|x| self.expr(x)).collect())));
                for a in args.iter() {
                    self.ty_note(self.tr.expr_ty(a));
                }
                "Call"
            }
            hir::ExprKind::MethodCall(seg, recv, args, _) => {
                o.push(("name", J::s(seg.ident.to_string())));
                if let Some(did) = self.tr.type_dependent_def_id(e.hir_id) {
                    let gargs = self.tr.node_args(e.hir_id);
                    for kv in self.callee_info(did, gargs) {
                        o.push(kv);
                    }
                }
                o.push(("recv", self.expr(recv)));
                o.push(("args", J::Arr(args.iter().map(|x| self.expr(x)).collect())));
                "MethodCall"
            }
            hir::ExprKind::Use(x, _) => {
                o.push(("e", self.expr(x)));
                "Use"
            }
            hir::ExprKind::Tup(es) => {
                o.push(("elems", J::Arr(es.iter().map(|x| self.expr(x)).collect())));
                "Tup"
            }
            hir::ExprKind::Binary(op, l, r) => {
                o.push(("op", J::s(format!("{:?}", op.node))));
                if let Some(did) = self.tr.type_dependent_def_id(e.hir_id) {
                    o.push(("def", J::s(tcx.def_path_str(did))));
                }
                o.push(("l", self.expr(l)));
                o.push(("r", self.expr(r)));
                "Binary"
            }
            hir::ExprKind::Unary(op, x) => {
                o.push(("op", J::s(format!("{:?}", op))));
                if let Some(did) = self.tr.type_dependent_def_id(e.hir_id) {
                    o.push(("def", J::s(tcx.def_path_str(did))));
                }
                o.push(("e", self.expr(x)));
                "Unary"
            }
            hir::ExprKind::Lit(l) => {
                for kv in self.lit(&l, false) {
                    o.push(kv);
                }
                "Lit"
            }
            hir::ExprKind::Cast(x, _) => {
                o.push(("e", self.expr(x)));
                "Cast"
            }
            hir::ExprKind::Type(x, _) => {
                o.push(("e", self.expr(x)));
                "TypeAscr"
            }
            hir::ExprKind::DropTemps(x) => {
                o.push(("e", self.expr(x)));
                "DropTemps"
            }
            hir::ExprKind::Let(l) => {
                o.push(("pat", self.pat(l.pat)));
                o.push(("init", self.expr(l.init)));
                "LetCond"
            }
            hir::ExprKind::If(c, t, f) => {
                o.push(("cond", self.expr(c)));
                o.push(("then", self.expr(t)));
                o.push(("else", J::opt(f.map(|x| self.expr(x)))));
                "If"
            }
            hir::ExprKind::Loop(b, label, src, _) => {
                o.push(("src", J::s(format!("{:?}", src))));
                o.push(("label", J::opt(label.map(|l| J::s(l.ident.to_string())))));
                o.push(("id", self.lid(e.hir_id)));
                o.push(("body", self.block(b)));
                "Loop"
            }
            hir::ExprKind::Match(s, arms, src) => {
                o.push(("src", J::s(format!("{:?}", src))));
                o.push(("scrut", self.expr(s)));
                let mut av = Vec::new();
                for a in arms {
                    av.push(J::Obj(vec![
                        ("pat", self.pat(a.pat)),
                        ("guard", J::opt(a.guard.map(|g| self.expr(g)))),
                        ("body", self.expr(a.body)),
                        ("sp", J::s(loc(tcx, a.span))),
                    ]));
                }
                o.push(("arms", J::Arr(av)));
                "Match"
            }
            hir::ExprKind::Closure(c) => {
                let body = tcx.hir_body(c.body);
                o.push(("def", J::s(tcx.def_path_str(c.def_id.to_def_id()))));
                o.push(("params", J::Arr(body.params.iter().map(|p| self.pat(p.pat)).collect())));
                o.push(("body", self.expr(body.value)));
                "Closure"
            }
            hir::ExprKind::Block(b, label) => {
                o.push(("label", J::opt(label.map(|l| J::s(l.ident.to_string())))));
                o.push(("id", self.lid(e.hir_id)));
                o.push(("b", self.block(b)));
                "BlockExpr"
            }
            hir::ExprKind::Assign(l, r, _) => {
                o.push(("l", self.expr(l)));
                o.push(("r", self.expr(r)));
                "Assign"
            }
            hir::ExprKind::AssignOp(op, l, r) => {
                o.push(("op", J::s(format!("{:?}", op.node))));
                if let Some(did) = self.tr.type_dependent_def_id(e.hir_id) {
                    o.push(("def", J::s(tcx.def_path_str(did))));
                }
                o.push(("l", self.expr(l)));
                o.push(("r", self.expr(r)));
                "AssignOp"
            }
            hir::ExprKind::Field(b, id) => {
                o.push(("name", J::s(id.to_string())));
                o.push(("base", self.expr(b)));
                "Field"
            }
            hir::ExprKind::Index(b, i, _) => {
                if let Some(did) = self.tr.type_dependent_def_id(e.hir_id) {
                    o.push(("def", J::s(tcx.def_path_str(did))));
                }
                o.push(("base", self.expr(b)));
                o.push(("idx", self.expr(i)));
                "Index"
            }
            hir::ExprKind::Path(ref q) => {
                let res = self.tr.qpath_res(q, e.hir_id);
                o.push(("res", self.res(res)));
                "Path"
            }
            hir::ExprKind::AddrOf(_, m, x) => {
                o.push(("mut", J::Bool(matches!(m, hir::Mutability::Mut))));
                o.push(("e", self.expr(x)));
                "AddrOf"
            }
            hir::ExprKind::Break(dest, v) => {
                o.push(("label", J::opt(dest.label.map(|l| J::s(l.ident.to_string())))));
                o.push(("target", match dest.target_id {
                    Ok(h) => self.lid(h),
                    Err(_) => J::Null,
                }));
                o.push(("val", J::opt(v.map(|x| self.expr(x)))));
                "Break"
            }
            hir::ExprKind::Continue(dest) => {
                o.push(("label", J::opt(dest.label.map(|l| J::s(l.ident.to_string())))));
                o.push(("target", match dest.target_id {
                    Ok(h) => self.lid(h),
                    Err(_) => J::Null,
                }));
                "Continue"
            }
            hir::ExprKind::Ret(v) => {
                o.push(("val", J::opt(v.map(|x| self.expr(x)))));
                "Ret"
            }
            hir::ExprKind::Struct(q, fields, base) => {
                let res = self.tr.qpath_res(q, e.hir_id);
                o.push(("res", self.res(res)));
                let mut fv = Vec::new();
                for f in fields {
                    fv.push(J::Obj(vec![
                        ("name", J::s(f.ident.to_string())),
                        ("e", self.expr(f.expr)),
                    ]));
                }
                o.push(("fields", J::Arr(fv)));
                if let hir::StructTailExpr::Base(b) = base {
                    o.push(("base", self.expr(b)));
                }
                "Struct"
            }
            hir::ExprKind::Repeat(x, _) => {
                o.push(("e", self.expr(x)));
                "Repeat"
            }
            hir::ExprKind::Become(x) => {
                o.push(("e", self.expr(x)));
                "Become"
            }
            hir::ExprKind::Yield(x, _) => {
                o.push(("e", self.expr(x)));
                "Yield"
            }
            hir::ExprKind::InlineAsm(_) => "InlineAsm",
            hir::ExprKind::OffsetOf(..) => "OffsetOf",
            hir::ExprKind::UnsafeBinderCast(_, x, _) => {
                o.push(("e", self.expr(x)));
                "UnsafeBinderCast"
            }
            hir::ExprKind::Err(_) => "Err",
        };
        let mut out: Vec<(&'static str, J)> = Vec::with_capacity(o.len() + 4);
        out.push(("k", J::s(kind)));
        out.extend(o);
        out.push(("sp", J::s(loc(tcx, e.span))));
        if e.span.from_expansion() {
            out.push(("exp", J::Bool(true)));
            out.push(("mac", J::opt(mac_name(e.span).map(J::s))));
        }
        if let Some(t) = self.tr.expr_ty_opt(e) {
            out.push(("ty", J::s(t.to_string())));
        }
        // adjusted type differs (auto-deref/ref)? keep only the flag for AddrOf-mut adjustments
        J::Obj(out)
    }

    fn pat_expr(&self, pe: &'tcx hir::PatExpr<'tcx>) -> J {
        match &pe.kind {
            hir::PatExprKind::Lit { lit, negated } => {
                let mut o = vec![("k", J::s("Lit"))];
                o.extend(self.lit(lit, *negated));
                J::Obj(o)
            }
            hir::PatExprKind::Path(q) => {
                let res = self.tr.qpath_res(q, pe.hir_id);
                J::Obj(vec![("k", J::s("Path")), ("res", self.res(res))])
            }
        }
    }

    fn pat(&self, p: &'tcx hir::Pat<'tcx>) -> J {
        let mut o: Vec<(&'static str, J)> = Vec::new();
        let kind: &'static str = match p.kind {
            hir::PatKind::Wild => "Wild",
            hir::PatKind::Missing => "Missing",
            hir::PatKind::Never => "Never",
            hir::PatKind::Err(_) => "Err",
            hir::PatKind::Binding(mode, hid, ident, sub) => {
                o.push(("id", self.lid(hid)));
                o.push(("name", J::s(ident.to_string())));
                o.push(("mode", J::s(format!("{:?}", mode))));
                o.push(("sub", J::opt(sub.map(|s| self.pat(s)))));
                "Bind"
            }
            hir::PatKind::Struct(ref q, fields, rest) => {
                let res = self.tr.qpath_res(q, p.hir_id);
                o.push(("res", self.res(res)));
                let mut fv = Vec::new();
                for f in fields {
                    fv.push(J::Obj(vec![
                        ("name", J::s(f.ident.to_string())),
                        ("pat", self.pat(f.pat)),
                    ]));
                }
                o.push(("fields", J::Arr(fv)));
                o.push(("rest", J::Bool(rest.is_some())));
                "Struct"
            }
            hir::PatKind::TupleStruct(ref q, pats, ddpos) => {
                let res = self.tr.qpath_res(q, p.hir_id);
                o.push(("res", self.res(res)));
                o.push(("pats", J::Arr(pats.iter().map(|x| self.pat(x)).collect())));
                o.push(("dd", match ddpos.as_opt_usize() {
                    Some(i) => J::Int(i as i128),
                    None => J::Null,
                }));
                "TupleStruct"
            }
            hir::PatKind::Or(pats) => {
                o.push(("pats", J::Arr(pats.iter().map(|x| self.pat(x)).collect())));
                "Or"
            }
            hir::PatKind::Tuple(pats, ddpos) => {
                o.push(("pats", J::Arr(pats.iter().map(|x| self.pat(x)).collect())));
                o.push(("dd", match ddpos.as_opt_usize() {
                    Some(i) => J::Int(i as i128),
                    None => J::Null,
                }));
                "Tuple"
            }
            hir::PatKind::Box(x) => {
                o.push(("pat", self.pat(x)));
                "Box"
            }
            hir::PatKind::Deref(x) => {
                o.push(("pat", self.pat(x)));
                "Deref"
            }
            hir::PatKind::Ref(x, ..) => {
                o.push(("pat", self.pat(x)));
                "Ref"
            }
            hir::PatKind::Expr(pe) => {
                o.push(("e", self.pat_expr(pe)));
                "Expr"
            }
            hir::PatKind::Guard(x, g) => {
                o.push(("pat", self.pat(x)));
                o.push(("guard", self.expr(g)));
                "Guard"
            }
            hir::PatKind::Range(lo, hi, end) => {
                o.push(("lo", J::opt(lo.map(|x| self.pat_expr(x)))));
                o.push(("hi", J::opt(hi.map(|x| self.pat_expr(x)))));
                o.push(("incl", J::Bool(matches!(end, hir::RangeEnd::Included))));
                "Range"
            }
            hir::PatKind::Slice(a, m, b) => {
                o.push(("before", J::Arr(a.iter().map(|x| self.pat(x)).collect())));
                o.push(("mid", J::opt(m.map(|x| self.pat(x)))));
                o.push(("after", J::Arr(b.iter().map(|x| self.pat(x)).collect())));
                "Slice"
            }
        };
        let mut out: Vec<(&'static str, J)> = Vec::with_capacity(o.len() + 3);
        out.push(("k", J::s(kind)));
        out.extend(o);
        if let Some(t) = self.tr.node_type_opt(p.hir_id) {
            out.push(("ty", J::s(t.to_string())));
        }
        if p.span.from_expansion() {
            out.push(("exp", J::Bool(true)));
        }
        J::Obj(out)
    }
}

fn rustc_hir_pretty_qpath(_q: &hir::QPath<'_>) -> String {
    String::new()
}
