#!/bin/bash
# verify_seed.sh <name> : independently confirm a seeded change from /tmp/seeded-out/<name>
#  (1) applies, compiles and the unedited suite passes; (2) demo fails with it; (3) demo passes without it.
# Uses a private worktree /tmp/wt/verify and target dir /tmp/wt/verify-target (remove both when done).
set -u
N=$1
SRC=${2:-/tmp/seeded-out/$N}
WT=${VERIFY_WT:-/tmp/wt/verify}
export CARGO_TARGET_DIR=${VERIFY_WT:-/tmp/wt/verify}-target CARGO_NET_OFFLINE=true
[ -d $WT ] || git -C /repo worktree add --detach $WT HEAD >/dev/null 2>&1
cd $WT && git checkout -q -- . && git clean -fdq
R=$SRC/verify_result.txt; : > $R
git apply --check $SRC/patch.diff || { echo "patch does not apply" | tee -a $R; exit 1; }
git apply $SRC/patch.diff
echo "== suite with change" | tee -a $R
cargo nextest run --workspace --no-fail-fast --offline 2>&1 | grep -E "Summary|FAIL|error(\[|:)" | head -20 | tee -a $R
if [ -f $SRC/seeded_$N.rs ]; then
  mkdir -p crates/sas-lexer/tests && cp $SRC/seeded_$N.rs crates/sas-lexer/tests/
  echo "== demo with change (expect FAIL)" | tee -a $R
  cargo test --offline -p sas-lexer ${DEMO_FEATURES:-} --test seeded_$N 2>&1 | grep -E "^test result|error(\[|:)" | tee -a $R
  git apply -R $SRC/patch.diff
  echo "== demo without change (expect ok)" | tee -a $R
  cargo test --offline -p sas-lexer ${DEMO_FEATURES:-} --test seeded_$N 2>&1 | grep -E "^test result|error(\[|:)" | tee -a $R
elif [ -f $SRC/demo.sh ]; then
  echo "== demo.sh with change (expect non-zero)" | tee -a $R
  (WT=$WT bash $SRC/demo.sh $WT; echo "rc=$?") 2>&1 | tail -5 | tee -a $R
  git apply -R $SRC/patch.diff
  echo "== demo.sh without change (expect rc=0)" | tee -a $R
  (WT=$WT bash $SRC/demo.sh $WT; echo "rc=$?") 2>&1 | tail -5 | tee -a $R
fi
git checkout -q -- . && git clean -fdq
