#!/usr/bin/env python3
"""Store verified seeded changes from /tmp/seeded-out/<name>/ as /verif/seeded/<name>/ and record which checks fire.
usage: store_seeds.py <name> ...   (runs every claimed check on a scratch copy with the patch applied)"""
import json, os, shutil, sys
from concurrent.futures import ThreadPoolExecutor
sys.path.insert(0, os.path.dirname(os.path.abspath(__file__)))
import regress
V = regress.VERIF
allp = [c["property_id"] for c in json.load(open(os.path.join(V, "MANIFEST.json")))["checks"]]
head = os.popen("git -C /repo rev-parse --short HEAD").read().strip()


def one(n):
    src = "/tmp/seeded-out/%s" % n
    r = regress.run_variant(src + "/patch.diff", allp)
    return n, src, r


with ThreadPoolExecutor(max_workers=5) as ex:
    for n, src, r in ex.map(one, sys.argv[1:]):
        if not r.get("applied"):
            print(n, "NOT APPLIED", r.get("detail"))
            continue
        det = {p: v["rules"] for p, v in r["props"].items() if v["rc"] == 1 and v["rules"]}
        broken = {p: v["first"] for p, v in r["props"].items() if v["rc"] not in (0, 1)}
        dst = os.path.join(V, "seeded", n)
        os.makedirs(dst, exist_ok=True)
        for f in os.listdir(src):
            if f in ("patch.diff", "demo.sh", "demo_path.txt") or f.startswith("seeded_"):
                shutil.copy(os.path.join(src, f), os.path.join(dst, f))
            elif f == "demo_support" and os.path.isdir(os.path.join(src, f)):
                shutil.copytree(os.path.join(src, f), os.path.join(dst, f), dirs_exist_ok=True)
        meta = json.load(open(src + "/meta.json"))
        meta["detected_by"] = det
        vr = open(src + "/verify_result.txt").read() if os.path.exists(src + "/verify_result.txt") else ""
        ok = "2152 passed" in vr and (("FAILED" in vr and "test result: ok" in vr) or
                                      ("rc=1" in vr.split("without change")[0] and "rc=0" in vr.split("without change")[-1]))
        meta["verified"] = ("tools/verify_seed.sh on /repo %s: suite 2152/2152 with change; demo fails with change, passes without" % head) if ok else "NOT VERIFIED: " + vr[-300:]
        json.dump(meta, open(os.path.join(dst, "meta.json"), "w"), indent=1)
        print("%-6s own=%s detected_by=%s %s" % (n, n[:3] in det, det, ("BROKEN " + str(broken)) if broken else ""))
