#!/usr/bin/env python3
"""try_patches.py [--jobs N] [--props C01,C02] <patch>... : run the claimed quick checks on scratch copies of /repo with each
patch applied (never touches /repo); prints, per patch, the checks that alarmed with their rules and first report."""
import json, os, sys
from concurrent.futures import ThreadPoolExecutor
sys.path.insert(0, os.path.dirname(os.path.abspath(__file__)))
import regress
args = sys.argv[1:]
jobs = 4
props = [c["property_id"] for c in json.load(open(os.path.join(regress.VERIF, "MANIFEST.json")))["checks"]]
if "--jobs" in args:
    i = args.index("--jobs"); jobs = int(args[i + 1]); del args[i:i + 2]
if "--props" in args:
    i = args.index("--props"); props = args[i + 1].split(","); del args[i:i + 2]
def one(p):
    return p, regress.run_variant(p, props)
with ThreadPoolExecutor(max_workers=jobs) as ex:
    for p, r in ex.map(one, args):
        if not r.get("applied"):
            print("== %s: NOT APPLIED %s" % (p, r.get("detail"))); continue
        al = {k: v for k, v in r["props"].items() if v["rc"] != 0}
        print("== %s: %d checks alarmed" % (p, len(al)))
        for k, v in sorted(al.items()):
            print("   %s rc=%d %s :: %s" % (k, v["rc"], v["rules"], v["first"]))
        sys.stdout.flush()
