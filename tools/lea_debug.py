#!/usr/bin/env python3
"""Debug helper: run LEA on one configuration and print failing obligations. usage: lea_debug.py <tag> <rule-filter> <width>"""
import sys,time,json; sys.path.insert(0,'/verif')
from sasv import extract, lea_engine
from collections import Counter
cdir,h=extract.ensure_facts()
d=lea_engine.compute(cdir+'/sas_lexer-'+(sys.argv[1] if len(sys.argv)>1 else 'dev-none-stable')+'.json')
print('wall',d['wall'])
for m in d['modes']:
    if m['error'] or m['unanalysed'] or m['wall']>5: print(m['mode'],m['paths'],m['wall'],m['error'],m['unanalysed'][:3])
print(Counter((o['rule'],o['ok']) for o in d['obs']))
print(d['counts'])
flt=sys.argv[2] if len(sys.argv)>2 else ''
for o in d['obs']:
    if not o['ok'] and flt in o['rule']: print(o['rule'],'|',o['key'][:100],'|',o['site'].split('/')[-1],'|',o['detail'][:int(sys.argv[3]) if len(sys.argv)>3 else 200],'|',o['modes'][:4])
