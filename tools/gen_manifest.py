#!/usr/bin/env python3
"""Regenerate /verif/MANIFEST.json from sasv.props (claimed checks) and sasv.manifest_data."""
import json, os, sys
sys.path.insert(0, os.path.dirname(os.path.dirname(os.path.abspath(__file__))))
from sasv import props, manifest_data as md

ALL = ["C%02d" % i for i in range(1, 21)]
checks = []
for pid in ALL:
    if pid in props.PROPS:
        fn, text = props.PROPS[pid]
        checks.append({
            "property_id": pid,
            "quick_cmd": "./check %s --tier quick" % pid,
            "thorough_cmd": "./check %s --tier thorough" % pid,
            "evidence_file": "/verif/evidence/%s.json" % pid,
            "replay_cmd_template": "./check %s --replay {path}" % pid,
            "engine": "sasv",
            "level_claimed": {"category": "other", "text": text, "design_ref": md.DESIGN_REF.get(pid, "DESIGN.md §3")},
            "level_note": md.LEVEL_NOTE.get(pid, md.DEFAULT_NOTE),
            "technique": md.TECHNIQUE.get(pid, "static analysis: custom rules over rustc's type-checked HIR/MIR"),
        })
na = []
for pid in ALL:
    if pid not in props.PROPS:
        na.append({"property_id": pid, "reason": md.NOT_APPLICABLE.get(pid, "no sound static rule built for this property yet (see DESIGN.md)")})
m = {
    "version": 1,
    "setup_cmd": "cd /verif/driver && CARGO_NET_OFFLINE=true cargo +nightly build --release --offline && cd /verif && python3 -m compileall -q sasv",
    "hooks": {
        "guard": "sas_lexer_verif",
        "enable": "no instrumentation is needed: the checks read rustc's HIR/MIR of /repo's unmodified source; the guard name is reserved and unused",
        "baseline_off_cmd": "cd /repo && cargo nextest run --workspace --no-fail-fast --offline",
        "source_commits": md.SOURCE_COMMITS,
        "add_only": True,
    },
    "engines": [
        {"name": "sasfacts", "path": "/verif/driver", "serves_properties": sorted(props.PROPS),
         "kind_free_text": "rustc_private driver (nightly) dumping type-checked HIR, MIR facts, ADT layouts per configuration"},
        {"name": "sasv", "path": "/verif/sasv", "serves_properties": sorted(props.PROPS),
         "kind_free_text": "Python rule engine: structural rules and a path-sensitive effect/typestate analysis (LEA) over the HIR facts"},
    ],
    "checks": checks,
    "notes": md.NOTES,
    "not_applicable": na,
}
with open("/verif/MANIFEST.json", "w") as f:
    json.dump(m, f, indent=1)
print("MANIFEST.json: %d checks, %d not_applicable" % (len(checks), len(na)))
