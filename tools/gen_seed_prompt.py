#!/usr/bin/env python3
"""Generate the self-contained prompt given to an independent sub-agent that seeds a defect.
The prompt contains only the property text (id, title, statement, quantifier) and the path of a scratch
worktree; nothing from /verif's machinery. usage: gen_seed_prompt.py C02a C03a ..."""
import json, sys, os
props = {json.loads(l)['id']: json.loads(l) for l in open('/verif/properties.jsonl')}
common = """You are helping evaluate a verification framework by producing a *seeded defect* for the open-source Rust project mishamsk/sas-lexer (a context-aware lexer for the SAS language, crate `sas-lexer` in crates/sas-lexer, main code in crates/sas-lexer/src/lexer/mod.rs, buffer.rs, cursor.rs, macro.rs, etc.; Python bindings in crates/sas-lexer-py and src/sas_lexer).

Your private scratch git worktree of the repository is at {wt} (detached HEAD of the pinned commit). Work ONLY inside that directory and in /tmp/seeded-out/{name}/ (create it). Do NOT read or modify /repo or /verif, and do not look for any verification tooling elsewhere on the machine - your change must be independent of it. The sandbox is offline: always pass --offline to cargo, and set CARGO_TARGET_DIR={wt}/target so your builds do not collide with others.

THE PROPERTY (this is all you are given about it):
  id: {id}
  title: {title}
  statement: {statement}
  quantifier: {quant}

YOUR TASK: make ONE small source change to the code in your worktree (realistic: the kind of slip or 'simplification' a maintainer could plausibly commit) such that
  (1) the workspace still compiles (stable toolchain: `cargo build --offline -p sas-lexer`; if you touch features also with `--features macro_sep`),
  (2) the ENTIRE existing test suite still passes, unedited: run `cd {wt} && CARGO_TARGET_DIR={wt}/target cargo nextest run --workspace --no-fail-fast --offline` (fallback: `cargo test --workspace --no-fail-fast --offline`); 2152 tests pass on the pristine tree and all must still pass with your change,
  (3) the property above is violated for SOME input, but only under specific circumstances - it must need something particular to manifest (an unusual input, a construct placed in an unplanned neighbourhood, a multi-step sequence, a particular build configuration such as release vs debug or a cargo feature, two cooperating sites that each look fine alone, a truncation at a particular point ...). Do NOT make a change that ordinary use would expose at once (that is also why the existing tests must keep passing).
Prefer subtle semantic edits (a dropped guard, a swapped order of two calls, a wrong constant/flag, an off-by-one, a missing bookkeeping call on one rare path, a case missing from a pattern) over crude ones. Do not add new dependencies. Do not edit or delete existing tests/snapshots.

DEMONSTRATION: write a demonstration that FAILS with your change and PASSES without it: normally a new integration test file `crates/sas-lexer/tests/seeded_{name}.rs` using only the public API (`sas_lexer::lex_program`, `LexResult`, `TokenizedBuffer` accessors, `error::ErrorInfo` ...) that asserts the property on one or a few concrete inputs; if the property needs two build configurations or the Python side, a shell script `demo.sh` (taking the repository root as $1, exit 0 = property holds) that builds/runs what is needed and compares is fine (no network; python3 is available but `msgspec`/`maturin` may not be). Verify both directions yourself (save your change with `git diff > /tmp/seeded-out/{name}/patch.diff`, then revert / re-apply it with `git apply -R` / `git apply`; do NOT use `git stash`: the stash is shared between all worktrees of the repository and other engineers work in theirs) and record the commands and their outcomes.

DELIVERABLES in /tmp/seeded-out/{name}/ :
  - patch.diff : `git diff` of the source change ONLY (not the demonstration), applicable with `git apply` at the repository root of a pristine checkout;
  - the demonstration file(s) (copy of the test file named seeded_{name}.rs and/or demo.sh), and demo_path.txt saying where the test file must be placed in the repo and the exact command to run it;
  - meta.json : {{"property": "{id}", "summary": "<what the change is>", "needs_to_manifest": "<what specific input/sequence/config triggers the violation>", "violating_input": "<concrete input>", "commands_run": [...], "suite_result_with_change": "<passed/failed counts>", "demo_with_change": "fail", "demo_without_change": "pass"}}.
When finished, delete {wt}/target to free disk space (leave the worktree itself). Your final message should briefly state what you changed, the triggering input, and confirm the three checks. If after a real effort you cannot find such a change, say so plainly and explain what you tried - do not fake results.
"""
os.makedirs('/tmp/seeded-out', exist_ok=True)
for name in sys.argv[1:]:
    pid = name[:3]; p = props[pid]
    extra = ""
    prev = '/verif/seeded'
    import glob
    done = []
    for d in sorted(glob.glob('/verif/seeded/%s*' % pid)):
        try:
            done.append(json.load(open(d + '/meta.json')).get('summary', '')[:400])
        except Exception:
            pass
    txt = common.format(wt='/tmp/wt/' + name, name=name, id=pid, title=p['title'], statement=p['statement'], quant=p['quantifier']['text'])
    if done:
        txt += "\nDIVERSITY NOTE: defects already produced for this property by other engineers (do NOT repeat these; pick a different function and a different mechanism, ideally one that needs two cooperating sites or a multi-step input to manifest):\n" + "\n".join("  - " + d for d in done) + "\n"
    open('/tmp/seeded-out/prompt_%s.txt' % name, 'w').write(txt)
    print(name, len(txt))
