#!/bin/bash
# try_patch.sh <patch> : apply a patch to /repo, run every claimed check (quick), print only alarms, revert.
P=$(realpath "$1")
cd /repo && git apply "$P" || { echo "cannot apply $P"; exit 2; }
trap 'git -C /repo checkout -- . ' EXIT
cd /verif
n=0
for p in $(python3 -c "import json;print(' '.join(c['property_id'] for c in json.load(open('/verif/MANIFEST.json'))['checks']))"); do
  out=$(./check $p 2>&1); rc=$?
  if [ $rc -ne 0 ]; then n=$((n+1)); echo "$out" | grep -E "VIOLATION|BROKEN" | cut -c1-330; fi
done
echo "== $(basename $P): $n checks alarmed"
