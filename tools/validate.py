#!/usr/bin/env python3
"""Validate MANIFEST.json and evidence/*.json against the harness schemas (run with python3-vt)."""
import glob, json, sys
import jsonschema
ok = True
def v(path, schema):
    global ok
    try:
        jsonschema.validate(json.load(open(path)), json.load(open(schema)))
        print("valid  ", path)
    except Exception as ex:
        ok = False
        print("INVALID", path, str(ex)[:300])
v("/verif/MANIFEST.json", "/root/.vp/MANIFEST.schema.json")
for p in sorted(glob.glob("/verif/evidence/C*.json")):
    v(p, "/root/.vp/EVIDENCE.schema.json")
sys.exit(0 if ok else 1)
