#!/bin/bash
# try_seed.sh <seed-dir-or-name> <prop> [<prop>...] : apply a seeded patch to /repo, run the given checks, revert.
S=$1; shift
[ -d "$S" ] || S=/verif/seeded/$S
cd /repo && git apply "$S/patch.diff" || { echo "cannot apply"; exit 2; }
trap 'git -C /repo checkout -- . ' EXIT
cd /verif
for p in "$@"; do ./check $p 2>&1 | grep -E "VIOLATION|KNOWN|BROKEN|obligations" | cut -c1-400; done
