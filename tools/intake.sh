#!/bin/bash
# intake.sh <name>... : verify each delivered seed in its own worktree, then store it (all checks on a scratch copy).
for N in "$@"; do
  export VERIFY_WT=/tmp/wt/verify-$N
  /verif/tools/verify_seed.sh $N > /tmp/verify_$N.log 2>&1
  git -C /repo worktree remove --force $VERIFY_WT >/dev/null 2>&1; rm -rf $VERIFY_WT-target
  grep -E "Summary|test result|rc=" /tmp/verify_$N.log | sed "s/^/[$N] /"
done
cd /verif && python3 tools/store_seeds.py "$@"
