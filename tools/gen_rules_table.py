#!/usr/bin/env python3
"""Print the 'property -> rules that ran' table from the evidence files (what the checks actually executed)."""
import json, os, sys
V = os.path.dirname(os.path.dirname(os.path.abspath(__file__)))
rows = []
for i in range(1, 21):
    pid = "C%02d" % i
    p = os.path.join(V, "evidence", pid + ".json")
    if not os.path.exists(p):
        rows.append("| %s | **not applicable** (see MANIFEST.not_applicable) |" % pid)
        continue
    d = json.load(open(p))
    rules = sorted(r for r in d["coverage"]["rules"] if not r.startswith("_") and r != "LEA")
    rows.append("| %s | %s |" % (pid, ", ".join(rules)))
print("| property | rules executed by `./check` (from evidence/<id>.json) |\n|---|---|")
print("\n".join(rows))
