#!/usr/bin/env python3
"""Regression of the machinery on scratch copies of /repo (never touches /repo's working tree):
  - every benign patch under selftest/benign must keep every claimed check silent,
  - every seeded patch must make the checks listed in its meta.json `detected_by` fire with one of the listed rules.
usage: regress.py [--benign] [--seeds] [--jobs N] [name-filter ...]"""
import glob
import json
import os
import shutil
import subprocess
import sys
import tempfile
from concurrent.futures import ThreadPoolExecutor

VERIF = os.path.dirname(os.path.dirname(os.path.abspath(__file__)))
REPO = os.environ.get("SASV_REPO", "/repo")


def run_variant(patch, props):
    scratch = tempfile.mkdtemp(prefix="sasv-regress-", dir=os.environ.get("SASV_SCRATCH", "/tmp"))
    try:
        repo = os.path.join(scratch, "repo")
        subprocess.run(["rsync", "-a", "--exclude", "target", "--exclude", ".git", REPO.rstrip("/") + "/", repo + "/"], check=True)
        r = subprocess.run(["patch", "-p1", "-s", "-i", os.path.abspath(patch)], cwd=repo, capture_output=True, text=True)
        if r.returncode != 0:
            return {"applied": False, "detail": (r.stdout + r.stderr)[-300:]}
        out = {}
        env = dict(os.environ, SASV_REPO=repo, SASV_EVIDENCE=os.path.join(scratch, "evidence"))
        for pid in props:
            r = subprocess.run(["python3", "-m", "sasv.cli", pid, "--tier", "quick"], cwd=VERIF, env=env, capture_output=True, text=True)
            viol = [l for l in r.stdout.splitlines() if l.startswith("VIOLATION")]
            rules = sorted({l.split("rule=")[1].split()[0] for l in viol if "rule=" in l})
            out[pid] = {"rc": r.returncode, "rules": rules, "first": viol[0][:260] if viol else (r.stdout + r.stderr)[-200:] if r.returncode not in (0, 1) else ""}
        return {"applied": True, "props": out}
    finally:
        shutil.rmtree(scratch, ignore_errors=True)


def meta_missed(d):
    try:
        return json.load(open(os.path.join(d, "meta.json"))).get("missed_reason")
    except (OSError, ValueError):
        return None


def main():
    args = sys.argv[1:]
    jobs = 4
    if "--jobs" in args:
        i = args.index("--jobs")
        jobs = int(args[i + 1])
        del args[i:i + 2]
    do_b = "--benign" in args or "--seeds" not in args
    do_s = "--seeds" in args or "--benign" not in args
    flt = [a for a in args if not a.startswith("--")]
    all_props = [c["property_id"] for c in json.load(open(os.path.join(VERIF, "MANIFEST.json")))["checks"]]
    work = []
    if do_b:
        for p in sorted(glob.glob(os.path.join(VERIF, "selftest", "benign", "*.patch"))):
            if not flt or any(f in os.path.basename(p) for f in flt):
                work.append(("benign", os.path.basename(p), p, all_props, None))
    if do_s:
        for d in sorted(glob.glob(os.path.join(VERIF, "seeded", "C*"))):
            name = os.path.basename(d)
            if flt and not any(f in name for f in flt):
                continue
            try:
                det = json.load(open(os.path.join(d, "meta.json"))).get("detected_by", {})
            except (OSError, ValueError):
                det = {}
            if not det and meta_missed(d):
                print("known-miss %-27s %s" % (name, meta_missed(d)[:120]))
                continue
            work.append(("seed", name, os.path.join(d, "patch.diff"), sorted(det), det))
    bad = 0
    with ThreadPoolExecutor(max_workers=jobs) as ex:
        results = list(ex.map(lambda w: run_variant(w[2], w[3]), work))
    for (kind, name, patch, props, det), r in zip(work, results):
        if not r.get("applied"):
            print("FAIL  %-32s patch does not apply: %s" % (name, r.get("detail")))
            bad += 1
            continue
        if kind == "benign":
            alarms = {p: v for p, v in r["props"].items() if v["rc"] != 0}
            if alarms:
                bad += 1
                for p, v in alarms.items():
                    print("FAIL  %-32s benign edit alarms %s %s :: %s" % (name, p, v["rules"], v["first"]))
            else:
                print("ok    %-32s silent on %d checks" % (name, len(props)))
        else:
            if not det:
                print("FAIL  %-32s has no detected_by" % name)
                bad += 1
            for p in props:
                v = r["props"][p]
                hit = v["rc"] == 1 and any(x in v["rules"] for x in det[p])
                if not hit:
                    bad += 1
                print("%s %-32s %s fired %s (expected any of %s)" % ("ok   " if hit else "MISS ", name, p, v["rules"], det[p]))
    print("== %d variant(s), %d problem(s)" % (len(work), bad))
    return 1 if bad else 0


if __name__ == "__main__":
    sys.exit(main())
