#!/bin/bash
# all_seeds.sh [name...] : for every stored seed, apply it, run the checks listed in meta.detected_by, report fired rules.
cd /verif
names=("$@"); [ ${#names[@]} -eq 0 ] && names=($(ls seeded | grep -v REFERENCE))
for s in "${names[@]}"; do
  props=$(python3 -c "import json;print(' '.join(json.load(open('seeded/$s/meta.json')).get('detected_by',{}).keys()))")
  [ -z "$props" ] && { echo "== $s: no detected_by"; continue; }
  (cd /repo && git apply /verif/seeded/$s/patch.diff) || { echo "== $s: cannot apply"; continue; }
  for p in $props; do
    out=$(SASV_EVIDENCE=/tmp/sasv-ev-seeds ./check $p 2>&1)
    rules=$(echo "$out" | grep -o "VIOLATION.*rule=[A-Z0-9-]*" | sed 's/.*rule=//' | sort -u | tr '\n' ' ')
    exp=$(python3 -c "import json;print(' '.join(json.load(open('seeded/$s/meta.json'))['detected_by']['$p']))")
    echo "== $s $p fired: [$rules] expected-any: [$exp]"
  done
  git -C /repo checkout -- .
done
rm -rf /tmp/sasv-ev-seeds
